package harness

import (
	"bytes"
	"crypto/sha256"
	"encoding/binary"
	"errors"
	"fmt"
	"io"
	"strings"
	"sync"
	"testing"

	"github.com/btcsuite/btcd/btcec/v2"
	"github.com/lightninglabs/lightning-node-connect/mailbox"
	"github.com/lightningnetwork/lnd/keychain"
	"golang.org/x/crypto/chacha20poly1305"
	"golang.org/x/crypto/hkdf"
)

// ---- deterministic keys -------------------------------------------------------

func privFromRng(r *rng) *btcec.PrivateKey {
	for {
		b := r.bytes(32)
		b[0] &= 0x7f
		k, _ := btcec.PrivKeyFromBytes(b)
		if k != nil && !k.Key.IsZero() {
			return k
		}
	}
}

func ephGen(r *rng) func() (*btcec.PrivateKey, error) {
	return func() (*btcec.PrivateKey, error) { return privFromRng(r), nil }
}

// ---- an in-memory duplex byte pipe (blocking reads, buffered writes) ----------

type halfPipe struct {
	mu     sync.Mutex
	cond   *sync.Cond
	buf    []byte
	closed bool
	rec    *[]byte // everything ever written (what the relay sees)
	frag   func() int
	// lazy: like net.Pipe, Write returns only when a reader has taken the bytes, and the bytes are
	// copied out of the writer's slice at that moment (a writer that reuses the memory meanwhile shows)
	lazy    bool
	pending []byte
}

func newHalfPipe() *halfPipe {
	h := &halfPipe{}
	h.cond = sync.NewCond(&h.mu)
	return h
}
func (h *halfPipe) Write(p []byte) (int, error) {
	h.mu.Lock()
	defer h.mu.Unlock()
	if h.closed {
		return 0, io.ErrClosedPipe
	}
	if h.lazy {
		for h.pending != nil && !h.closed { // one writer at a time
			h.cond.Wait()
		}
		h.pending = p
		h.cond.Broadcast()
		for len(h.pending) > 0 && !h.closed {
			h.cond.Wait()
		}
		left := len(h.pending)
		h.pending = nil
		h.cond.Broadcast()
		if left > 0 {
			return len(p) - left, io.ErrClosedPipe
		}
		if h.rec != nil {
			*h.rec = append(*h.rec, p...)
		}
		return len(p), nil
	}
	h.buf = append(h.buf, p...)
	if h.rec != nil {
		*h.rec = append(*h.rec, p...)
	}
	h.cond.Broadcast()
	return len(p), nil
}
func (h *halfPipe) Read(p []byte) (int, error) {
	h.mu.Lock()
	defer h.mu.Unlock()
	if h.lazy {
		for len(h.pending) == 0 && !h.closed {
			h.cond.Wait()
		}
		if len(h.pending) == 0 {
			return 0, io.EOF
		}
		n := copy(p, h.pending)
		h.pending = h.pending[n:]
		h.cond.Broadcast()
		return n, nil
	}
	for len(h.buf) == 0 && !h.closed {
		h.cond.Wait()
	}
	if len(h.buf) == 0 {
		return 0, io.EOF
	}
	n := len(p)
	if n > len(h.buf) {
		n = len(h.buf)
	}
	if h.frag != nil { // short reads: at most frag() bytes per call
		if k := h.frag(); k < n && k > 0 {
			n = k
		}
	}
	copy(p, h.buf[:n])
	h.buf = h.buf[n:]
	return n, nil
}
func (h *halfPipe) Close() {
	h.mu.Lock()
	h.closed = true
	h.cond.Broadcast()
	h.mu.Unlock()
}

type duplex struct {
	r *halfPipe
	w *halfPipe
}

func (d *duplex) Read(p []byte) (int, error)  { return d.r.Read(p) }
func (d *duplex) Write(p []byte) (int, error) { return d.w.Write(p) }

// ---- a pair of Machines after a real handshake ---------------------------------

type machinePair struct {
	init, resp     *mailbox.Machine
	initCD, respCD *mailbox.ConnData
	errI, errR     error
	wireIR, wireRI []byte // handshake bytes as seen on the wire
}

type pairCfg struct {
	kk                     bool
	minI, maxI, minR, maxR byte
	authData               []byte
	passI, passR           []byte
	fragI, fragR           func() int // short reads on the initiator's / responder's transport
	// KK: what each side believes the other's static key is (nil = the true key)
	expectR, expectI *btcec.PublicKey
	tamper           func(fromInitiator bool, msg []byte) []byte
}

func newMachinePair(r *rng, c pairCfg) *machinePair {
	skI, skR := privFromRng(r), privFromRng(r)
	if c.passI == nil {
		c.passI = []byte("correct horse!!")[:14]
	}
	if c.passR == nil {
		c.passR = c.passI
	}
	var remI, remR *btcec.PublicKey
	pat := mailbox.XXPattern
	if c.kk {
		pat = mailbox.KKPattern
		remI, remR = skR.PubKey(), skI.PubKey()
		if c.expectR != nil {
			remI = c.expectR
		}
		if c.expectI != nil {
			remR = c.expectI
		}
	}
	p := &machinePair{}
	p.initCD = mailbox.NewConnData(&keychain.PrivKeyECDH{PrivKey: skI}, remI, c.passI, nil, nil, nil)
	p.respCD = mailbox.NewConnData(&keychain.PrivKeyECDH{PrivKey: skR}, remR, c.passR, c.authData, nil, nil)
	var err error
	p.init, err = mailbox.NewBrontideMachine(&mailbox.BrontideMachineConfig{
		Initiator: true, HandshakePattern: pat, MinHandshakeVersion: c.minI, MaxHandshakeVersion: c.maxI,
		ConnData: p.initCD, EphemeralGen: ephGen(r.sub(1)),
	})
	if err != nil {
		p.errI = err
		return p
	}
	p.resp, err = mailbox.NewBrontideMachine(&mailbox.BrontideMachineConfig{
		Initiator: false, HandshakePattern: pat, MinHandshakeVersion: c.minR, MaxHandshakeVersion: c.maxR,
		ConnData: p.respCD, EphemeralGen: ephGen(r.sub(2)),
	})
	if err != nil {
		p.errR = err
		return p
	}
	ir, ri := newHalfPipe(), newHalfPipe()
	ir.rec, ri.rec = &p.wireIR, &p.wireRI
	ri.frag, ir.frag = c.fragI, c.fragR
	var wg sync.WaitGroup
	wg.Add(2)
	go func() {
		defer wg.Done()
		p.errI = p.init.DoHandshake(&duplex{r: ri, w: ir})
		if p.errI != nil {
			ir.Close()
			ri.Close()
		}
	}()
	go func() {
		defer wg.Done()
		p.errR = p.resp.DoHandshake(&duplex{r: ir, w: ri})
		if p.errR != nil {
			ir.Close()
			ri.Close()
		}
	}()
	wg.Wait()
	return p
}

// ---- independent re-computation of the record layer ---------------------------

type refCipher struct {
	key, salt [32]byte
	nonce     uint64
	keyIdx    int
}

func (c *refCipher) seal(p []byte) []byte {
	aead, _ := chacha20poly1305.New(c.key[:])
	var n [12]byte
	binary.LittleEndian.PutUint64(n[4:], c.nonce)
	out := aead.Seal(nil, n[:], p, nil)
	c.nonce++
	if c.nonce == 1000 {
		h := hkdf.New(sha256.New, c.key[:], c.salt[:], nil)
		var nk [32]byte
		_, _ = io.ReadFull(h, c.salt[:])
		_, _ = io.ReadFull(h, nk[:])
		c.key = nk
		c.nonce = 0
		c.keyIdx++
	}
	return out
}

func (c *refCipher) record(p []byte) []byte {
	var l [2]byte
	binary.BigEndian.PutUint16(l[:], uint16(len(p)))
	return append(c.seal(l[:]), c.seal(p)...)
}

func readErrEnum(err error) string {
	switch {
	case err == nil:
		return "ok"
	case errors.Is(err, io.EOF) || errors.Is(err, io.ErrUnexpectedEOF):
		return "short"
	case strings.Contains(err.Error(), "authentication failed"):
		return "err"
	}
	return "err"
}

// ---- C08 -------------------------------------------------------------------------

func TestGenC08(t *testing.T) {
	r := newRng(seed())
	o := newOut(t, "c08_impl.txt")
	defer o.close()
	q := newOracle(t, "c08")
	defer q.close()
	nscen := scale(6, 60)
	for sc := 0; sc < nscen; sc++ {
		rr := r.sub(sc)
		kk := sc%2 == 1
		cfg := pairCfg{kk: kk, minI: 0, maxI: 2, minR: 0, maxR: 2, authData: []byte("auth-" + string(rune('a'+sc%26)))}
		if kk {
			cfg.minI, cfg.minR = 2, 2
		}
		p := newMachinePair(rr, cfg)
		if p.errI != nil || p.errR != nil {
			q.fail("c08:handshake-failed", fmt.Sprintf("scenario %d: %v / %v", sc, p.errI, p.errR))
			continue
		}
		sk, ss, rk, rs, _, _ := p.init.VerifCipherKeys()
		ref := [2]*refCipher{{key: sk, salt: ss}, {key: rk, salt: rs}} // dir 0: initiator->responder, 1: back
		mach := [2]*mailbox.Machine{p.init, p.resp}
		nrec := [2]int{rr.pick([]int{0, 3, 499, 501, 1100, 2600}), rr.pick([]int{0, 3, 499, 501, 1100, 2600})}
		if !thorough() && sc >= 3 {
			nrec = [2]int{rr.intn(700), rr.intn(700)}
		}
		done := [2]int{}
		marker := []byte("PLAINTEXT-MARKER-0123456789abcdef")
		seen := map[string]int{}
		for done[0] < nrec[0] || done[1] < nrec[1] {
			d := rr.intn(2)
			if done[d] >= nrec[d] {
				d = 1 - d
			}
			sz := rr.pick([]int{0, 1, 2, 17, 33, 100, len(marker)})
			if rr.chance(1, 400) {
				sz = 65535
			}
			pl := rr.bytes(sz)
			if sz == len(marker) {
				pl = marker // equal plaintexts at different operations
			}
			var wire bytes.Buffer
			if err := mach[d].WriteMessage(pl); err != nil {
				q.fail("c08:write-failed", err.Error())
				break
			}
			if rr.chance(1, 25) {
				// a second WriteMessage before the flush is refused; a refused call must not touch the key/nonce schedule
				e := mach[d].WriteMessage(rr.bytes(5))
				q.check(e != nil, "c08:second-record-accepted-before-flush", func() string {
					return fmt.Sprintf("scenario %d dir %d record %d: WriteMessage while a record is pending returned nil", sc, d, done[d])
				})
				q.stat("refused_writes", 1)
			}
			if _, err := mach[d].Flush(&wire); err != nil {
				q.fail("c08:flush-failed", err.Error())
				break
			}
			m := 2 * done[d]
			ki, nn := ref[d].keyIdx, ref[d].nonce
			want := ref[d].record(pl)
			match := bytes.Equal(want, wire.Bytes())
			q.check(match, "c08:wire-differs-from-reference", func() string {
				return fmt.Sprintf("scenario %d dir %d record %d (operation %d, expected key #%d nonce %d, len %d): wire bytes differ from Seal(K_i, nonce, plaintext) computed independently", sc, d, done[d], m, ki, nn, sz)
			})
			o.line("OP %d %d %d %d %d", d, m, ki, nn, b2i(match))
			// round trip on the peer
			got, err := mach[1-d].ReadMessage(bytes.NewReader(wire.Bytes()))
			q.check(err == nil && bytes.Equal(got, pl), "c08:roundtrip", func() string {
				return fmt.Sprintf("scenario %d dir %d record %d: peer read err=%v, %d bytes for %d written", sc, d, done[d], err, len(got), sz)
			})
			// no plaintext on the wire; equal plaintexts never give equal ciphertexts
			if sz >= 16 {
				q.check(!bytes.Contains(wire.Bytes(), pl[:16]), "c08:plaintext-on-wire", func() string {
					return fmt.Sprintf("scenario %d dir %d record %d: wire contains the plaintext", sc, d, done[d])
				})
			}
			key := string(wire.Bytes())
			if prev, ok := seen[key]; ok {
				q.fail("c08:ciphertext-repeated", fmt.Sprintf("scenario %d: record %d of dir %d has the same wire bytes as an earlier record (%d)", sc, done[d], d, prev))
			}
			if sz == len(marker) || sz <= 2 {
				seen[key] = done[d]
			}
			done[d]++
			q.stat("records", 1)
		}
		q.check(!bytes.Contains(p.wireRI, cfg.authData) && !bytes.Contains(p.wireIR, cfg.authData), "c08:auth-payload-on-wire", func() string {
			return fmt.Sprintf("scenario %d: handshake bytes contain the auth payload in the clear", sc)
		})
		q.stat("distinct_nontrivial", 1)
		q.stat(fmt.Sprintf("rotations_%d", (2*nrec[0])/1000+(2*nrec[1])/1000), 1)
		q.sample(fmt.Sprintf("scenario %d: %s handshake, %d + %d records interleaved, sizes {0,1,2,17,33,100,marker,65535}", sc, map[bool]string{false: "XX", true: "KK"}[kk], nrec[0], nrec[1]))
	}
	// the two directions at the same time on each endpoint (a pending outgoing record while the reader is at work)
	duplexCases(q, r, scale(6, 100), "c08:directions-interfere")
}

// ---- C02: adversarial edits of the ciphertext stream ------------------------------

type witem struct {
	honest  bool
	op, off int
	b       byte
}

func buildStream(ref *refCipher, recs [][]byte) []witem {
	var s []witem
	for k, p := range recs {
		var l [2]byte
		binary.BigEndian.PutUint16(l[:], uint16(len(p)))
		for i, b := range ref.seal(l[:]) {
			s = append(s, witem{true, 2 * k, i, b})
		}
		for i, b := range ref.seal(p) {
			s = append(s, witem{true, 2*k + 1, i, b})
		}
	}
	return s
}

func recordBounds(recs [][]byte) [][2]int {
	var bs [][2]int
	pos := 0
	for _, p := range recs {
		n := 18 + len(p) + 16
		bs = append(bs, [2]int{pos, pos + n})
		pos += n
	}
	return bs
}

// runReader feeds the (possibly edited) stream to the real reader.
func runReader(m *mailbox.Machine, items []witem, fuel int) []string {
	raw := make([]byte, len(items))
	for i, it := range items {
		raw[i] = it.b
	}
	rd := bytes.NewReader(raw)
	var res []string
	for i := 0; i < fuel; i++ {
		p, err := m.ReadMessage(rd)
		e := readErrEnum(err)
		if e == "ok" {
			res = append(res, "ok:"+hx(p))
		} else {
			res = append(res, e)
		}
		if e == "short" {
			break
		}
	}
	return res
}

// hiccupReader delivers data, except that the Read which would cross byte offset `at` first returns what lies
// before it and the next Read fails once with a timeout; after that the stream continues.
type hiccupReader struct {
	data  []byte
	off   int
	at    int
	fired bool
}

type timeoutErr struct{}

func (timeoutErr) Error() string   { return "i/o timeout" }
func (timeoutErr) Timeout() bool   { return true }
func (timeoutErr) Temporary() bool { return true }

func (h *hiccupReader) done() bool { return h.off >= len(h.data) }
func (h *hiccupReader) Read(p []byte) (int, error) {
	if !h.fired && h.off == h.at {
		h.fired = true
		return 0, timeoutErr{}
	}
	if h.off >= len(h.data) {
		return 0, io.EOF
	}
	end := len(h.data)
	if !h.fired && h.at > h.off && h.at < end {
		end = h.at
	}
	n := copy(p, h.data[h.off:end])
	h.off += n
	return n, nil
}

func itemsString(dir int, items []witem) string {
	var sb strings.Builder
	for i, it := range items {
		if i > 0 {
			sb.WriteByte(' ')
		}
		if it.honest {
			fmt.Fprintf(&sb, "h%d:%d:%d", dir, it.op, it.off)
		} else {
			sb.WriteByte('j')
		}
	}
	if len(items) == 0 {
		return "-"
	}
	return sb.String()
}

func TestGenC02(t *testing.T) {
	r := newRng(seed())
	o := newOut(t, "c02_impl.txt")
	defer o.close()
	q := newOracle(t, "c02")
	defer q.close()
	id := 0
	// one scenario = fresh pair, writer writes recs, stream edited, reader reads
	scenario := func(kk bool, dir int, recs [][]byte, edit func(s []witem, other []witem, rr *rng) ([]witem, string), rr *rng) {
		id++
		cfg := pairCfg{kk: kk, minI: 0, maxI: 2, minR: 0, maxR: 2}
		if kk {
			cfg.minI, cfg.minR = 2, 2
		}
		p := newMachinePair(rr.sub(77), cfg)
		if p.errI != nil || p.errR != nil {
			q.fail("c02:handshake-failed", fmt.Sprintf("%v / %v", p.errI, p.errR))
			return
		}
		sk, ss, rk, rs, _, _ := p.init.VerifCipherKeys()
		refs := [2]*refCipher{{key: sk, salt: ss}, {key: rk, salt: rs}}
		stream := buildStream(refs[dir], recs)
		// the other direction's traffic (for reflection)
		otherRecs := [][]byte{rr.bytes(2), rr.bytes(5)}
		other := buildStream(refs[1-dir], otherRecs)
		edited, what := edit(stream, other, rr)
		reader := p.resp
		if dir == 1 {
			reader = p.init
		}
		res := runReader(reader, edited, len(recs)+3)
		var rh []string
		for _, p := range recs {
			rh = append(rh, hx(p))
		}
		if len(rh) == 0 {
			rh = []string{"none"}
		}
		// tags of the other direction are printed with their own direction
		var toks []string
		for _, it := range edited {
			if it.honest {
				d := dir
				if it.op >= 1000000 {
					d = 1 - dir
					toks = append(toks, fmt.Sprintf("h%d:%d:%d", d, it.op-1000000, it.off))
				} else {
					toks = append(toks, fmt.Sprintf("h%d:%d:%d", d, it.op, it.off))
				}
			} else {
				toks = append(toks, "j")
			}
		}
		if len(toks) == 0 {
			toks = []string{"-"}
		}
		o.line("C %d %s | %s | %s", dir, strings.Join(rh, ","), strings.Join(toks, " "), strings.Join(res, " "))
		// direct oracle: Ok results are a prefix of what the peer wrote
		k := 0
		good := true
		for _, x := range res {
			if strings.HasPrefix(x, "ok:") {
				if k >= len(recs) || x != "ok:"+hx(recs[k]) {
					good = false
				}
				k++
			}
		}
		q.check(good, "c02:returned-data-not-a-prefix:"+what, func() string {
			return fmt.Sprintf("scenario %d (%s, dir %d, edit %s): records written %v, reads returned %v", id, map[bool]string{false: "XX", true: "KK"}[kk], dir, what, rh, res)
		})
		q.stat("edit_"+what, 1)
		q.stat("distinct_nontrivial", 1)
		if id <= 4 {
			q.sample(fmt.Sprintf("edit=%s recs=%v -> %v", what, rh, res))
		}
	}
	junk := func(orig byte, rr *rng) witem { return witem{false, 0, 0, orig ^ byte(1+rr.intn(255))} }

	// (1) every single-bit flip of a small stream
	for _, sz := range []int{0, 1, 2, 17} {
		recs := [][]byte{r.bytes(sz), r.bytes(2)}
		n := 18 + sz + 16
		for pos := 0; pos < n; pos++ {
			for bit := 0; bit < 8; bit++ {
				if !thorough() && (pos*8+bit)%4 != int(seed()%4) {
					continue
				}
				pos, bit := pos, bit
				scenario(false, 0, recs, func(s, _ []witem, _ *rng) ([]witem, string) {
					c := append([]witem{}, s...)
					c[pos] = witem{false, 0, 0, s[pos].b ^ (1 << bit)}
					return c, "bitflip"
				}, r.sub(id))
			}
		}
	}
	// (2) random multi-edit scripts
	edits := []string{"none", "truncate", "droprec", "duprec", "swaprec", "replay", "reflect", "inject", "replacebyte", "junkheader-then-shifted"}
	for i := 0; i < scale(500, 12000); i++ {
		rr := r.sub(100000 + i)
		var recs [][]byte
		for k := rr.intn(5); k >= 0; k-- {
			recs = append(recs, rr.bytes(rr.pick([]int{0, 1, 2, 2, 5, 17, 18, 40, 300})))
		}
		if rr.chance(1, 8) {
			// the header/body confusion shape: a 2-byte first record whose body is as long as a header
			recs = append([][]byte{{0, byte(rr.pick([]int{2, 5}))}}, recs...)
		}
		what := edits[rr.intn(len(edits))]
		scenario(rr.chance(1, 2), rr.intn(2), recs, func(s, other []witem, rr *rng) ([]witem, string) {
			bs := recordBounds(recs)
			c := append([]witem{}, s...)
			rec := func(k int) []witem { return append([]witem{}, s[bs[k][0]:bs[k][1]]...) }
			nEd := 1 + rr.intn(2)
			for e := 0; e < nEd; e++ {
				k := rr.intn(len(recs))
				switch what {
				case "truncate":
					if len(c) > 0 {
						c = c[:rr.intn(len(c))]
					}
				case "droprec":
					c = append(append([]witem{}, s[:bs[k][0]]...), s[bs[k][1]:]...)
				case "duprec":
					c = append(append(append([]witem{}, s[:bs[k][1]]...), rec(k)...), s[bs[k][1]:]...)
				case "swaprec":
					if len(recs) >= 2 {
						k = rr.intn(len(recs) - 1)
						c = append(append(append(append([]witem{}, s[:bs[k][0]]...), rec(k+1)...), rec(k)...), s[bs[k+1][1]:]...)
					}
				case "replay":
					c = append(append([]witem{}, s...), rec(k)...)
				case "reflect":
					o2 := append([]witem{}, other...)
					for i := range o2 {
						o2[i].op += 1000000
					}
					at := bs[k][0]
					c = append(append(append([]witem{}, s[:at]...), o2...), s[at:]...)
				case "inject":
					at := rr.intn(len(s) + 1)
					var j []witem
					for n := 1 + rr.intn(20); n > 0; n-- {
						j = append(j, witem{false, 0, 0, byte(rr.u64())})
					}
					c = append(append(append([]witem{}, s[:at]...), j...), s[at:]...)
				case "replacebyte":
					if len(c) > 0 {
						at := rr.intn(len(c))
						c[at] = junk(c[at].b, rr)
					}
				case "junkheader-then-shifted":
					// 18 junk bytes, then the stream minus its first header: body_0 is read as a header
					var j []witem
					for n := 0; n < 18; n++ {
						j = append(j, witem{false, 0, 0, byte(rr.u64())})
					}
					c = append(j, s[18:]...)
				}
			}
			return c, what
		}, rr)
	}
	// (2b) a transient transport error (a read deadline, a malformed control message injected by the relay) at every
	// byte position of the honest stream; the application retries its Read, as net.Conn permits after a timeout.
	// Whatever the reader then returns as valid is still a prefix of what the peer wrote (the tagged model has no
	// transient errors: direct oracle only)
	for ci, recs := range [][][]byte{
		{{0x00, 0x02}, []byte("hello")},              // a 2-byte record whose body is as long as a header
		{{0x00, 0x05}, {0x00, 0x02}, []byte("tail")}, // two of them
		{r.bytes(17), r.bytes(1), r.bytes(40)},
	} {
		for dirI := 0; dirI < 2; dirI++ {
			id++
			rr := r.sub(id)
			cfg := pairCfg{kk: ci%2 == 1, minI: 0, maxI: 2, minR: 0, maxR: 2}
			if cfg.kk {
				cfg.minI, cfg.minR = 2, 2
			}
			base := newMachinePair(rr.sub(77), cfg)
			if base.errI != nil || base.errR != nil {
				q.fail("c02:handshake-failed", fmt.Sprintf("%v / %v", base.errI, base.errR))
				continue
			}
			sk, ss, rk, rs, _, _ := base.init.VerifCipherKeys()
			refs := [2]*refCipher{{key: sk, salt: ss}, {key: rk, salt: rs}}
			stream := buildStream(refs[dirI], recs)
			for pos := 0; pos <= len(stream); pos++ {
				// a fresh pair with the same keys for every position (same seed)
				p := newMachinePair(rr.sub(77), cfg)
				reader := p.resp
				if dirI == 1 {
					reader = p.init
				}
				raw := make([]byte, len(stream))
				for i, it := range stream {
					raw[i] = it.b
				}
				rd := &hiccupReader{data: raw, at: pos}
				var res []string
				for k := 0; k < len(recs)+3; k++ {
					pl, err := reader.ReadMessage(rd)
					if err == nil {
						res = append(res, "ok:"+hx(pl))
					} else {
						res = append(res, "err")
						if errors.Is(err, io.EOF) {
							break
						}
					}
				}
				var rh []string
				for _, rc := range recs {
					rh = append(rh, hx(rc))
				}
				segA, segB := "", ""
				if pos > 0 {
					segA = itemsString(dirI, stream[:pos])
				}
				if pos < len(stream) {
					segB = itemsString(dirI, stream[pos:])
				}
				o.line("CT %d %s | %s / %s | %s", dirI, strings.Join(rh, ","), segA, segB, strings.Join(res, " "))
				k, good := 0, true
				for _, x := range res {
					if strings.HasPrefix(x, "ok:") {
						if k >= len(recs) || x != "ok:"+hx(recs[k]) {
							good = false
						}
						k++
					}
				}
				q.check(good, "c02:returned-data-not-a-prefix:transient-read-error", func() string {
					return fmt.Sprintf("dir %d, records written %v, one transient read error after %d of %d wire bytes, Read retried: reads returned %v", dirI, rh, pos, len(stream), res)
				})
				q.stat("edit_transient-read-error", 1)
			}
		}
	}
	// (3) long streams: a record replayed exactly one or two key rotations later (a key is used for 500 records:
	// 1000 nonces, two per record), and a record of the other direction with the same nonce
	for ci, c := range [][2]int{{0, 500}, {3, 503}, {0, 1000}, {499, 999}, {1, 501}, {250, 500}} {
		i, j := c[0], c[1]
		rr := r.sub(900000 + ci)
		var recs [][]byte
		for k := 0; k < j+2; k++ {
			recs = append(recs, rr.bytes([]int{1, 0, 2}[k%3]))
		}
		reflect := ci == 4
		scenario(ci%2 == 1, ci%2, recs, func(s, other []witem, _ *rng) ([]witem, string) {
			bs := recordBounds(recs)
			ins := append([]witem{}, s[bs[i][0]:bs[i][1]]...)
			what := "replay-across-rotation"
			if reflect {
				ins = append([]witem{}, other...)
				for x := range ins {
					ins[x].op += 1000000
				}
				what = "reflect-after-rotation"
			}
			return append(append(append([]witem{}, s[:bs[j][0]]...), ins...), s[bs[j][1]:]...), what
		}, rr)
	}
}

func keyECDH(k *btcec.PrivateKey) keychain.SingleKeyECDH { return &keychain.PrivKeyECDH{PrivKey: k} }
