package harness

import (
	"bytes"
	"fmt"
	"os"
	"os/exec"
	"runtime"
	"strings"
	"testing"
	"testing/synctest"
	"time"
)

// runChild re-executes this test binary for one crash-prone scenario; a panic
// in a goroutine of the code under test kills only the child.
func runChild(name string, env ...string) (exit int, output string) {
	return runChildT("120s", name, env...)
}

func runChildT(timeout string, name string, env ...string) (exit int, output string) {
	cmd := exec.Command(os.Args[0], "-test.run", "^"+name+"$", "-test.timeout", timeout)
	cmd.Env = append(os.Environ(), "VERIF_CHILD=1")
	cmd.Env = append(cmd.Env, env...)
	var buf bytes.Buffer
	cmd.Stdout = &buf
	cmd.Stderr = &buf
	err := cmd.Run()
	if err != nil {
		if ee, ok := err.(*exec.ExitError); ok {
			return ee.ExitCode(), buf.String()
		}
		return -1, buf.String() + err.Error()
	}
	return 0, buf.String()
}

// ---- handshake scenarios -------------------------------------------------------

type hsParams struct {
	class                    string
	pattern                  [2][]string // scripted decisions for the first packets of each direction
	staleAB                  [][]byte
	staleBA                  [][]byte
	serverFirst, clientFirst bool
	sendData                 bool
	serverSendsFirst         bool // after both handshakes the server sends a message before the client does
	r                        *rng
	randomFaults             int // number of random fault decisions after the script
}

type hsResult struct {
	closedVisibly                bool
	hsOK                         [2]bool
	hsRet                        [2]bool
	srvN                         int
	delivered                    bool
	clientErr                    bool
	virtual                      time.Duration
	checkedAfter, flowsAfter     bool
	checkedBack, backArrived     bool
	checkedRestart, serverGaveUp bool
	backTook                     time.Duration
	rtSeen                       [2]bool
	rtAfterHs                    [2]time.Duration
	synTx                        [2]int
	synackDropped                int // SYNACK packets the transport lost / delivered
	synackDelivered              int
	srvMsgArrived                bool // the message the server sent first reached the client's application
}

func runHandshakeScenario(t *testing.T, l *evlog, q *oracle, cfg simCfg, p hsParams) hsResult {
	var res hsResult
	l.keep = l.keep[:0]
	l.o.line("BEGIN %s n=%d chunk=0 class=%s", cfg.id, cfg.n, p.class)
	pan := bubble(t, func(t *testing.T) {
		l.start = time.Now()
		l.last = 0
		base := runtime.NumGoroutine()
		s := newSim(t, l, cfg)
		for _, b := range p.staleAB {
			s.injectRaw(0, b)
		}
		for _, b := range p.staleBA {
			s.injectRaw(1, b)
		}
		switch {
		case p.serverFirst:
			s.startEndpoints(1)
			synctest.Wait()
			s.advance(300 * time.Millisecond)
			s.startEndpoints(0)
		case p.clientFirst:
			s.startEndpoints(0)
			synctest.Wait()
			s.advance(300 * time.Millisecond)
			s.startEndpoints(1)
		default:
			s.startEndpoints()
		}
		synctest.Wait()
		idx := [2]int{}
		faults := 0
		sent := false
		srvSent := false
		start := time.Now()
		for it := 0; it < 4000 && time.Since(start) < 150*time.Second; it++ {
			moved := false
			for x := 0; x < 2; x++ {
				if !s.canOp(x) {
					continue
				}
				what := "deliver"
				if idx[x] < len(p.pattern[x]) {
					what = p.pattern[x][idx[x]]
				} else if faults < p.randomFaults && p.r != nil {
					faults++
					what = []string{"deliver", "deliver", "keep", "drop"}[p.r.intn(4)]
				}
				idx[x]++
				if strings.HasPrefix(what, "wait") { // scripted delay in front of this packet
					var ms int
					fmt.Sscanf(what, "wait%d", &ms)
					s.advance(time.Duration(ms) * time.Millisecond)
					what = "deliver"
				}
				if h := s.head(x); x == 0 && len(h) == 1 && h[0] == 6 {
					if what == "drop" {
						res.synackDropped++
					} else {
						res.synackDelivered++
					}
				}
				s.op(x, what)
				moved = true
			}
			for x := 0; x < 2; x++ {
				// the resend timeout right after the handshake, before any data-phase sample can be taken
				if !res.rtSeen[x] && s.hsReturned(x) && s.hsErr[x] == nil && s.conn[x] != nil {
					res.rtSeen[x] = true
					res.rtAfterHs[x] = s.conn[x].VerifResendTimeout()
					l.mu.Lock()
					for _, e := range l.keep {
						if strings.HasPrefix(e, fmt.Sprintf("TX %d 01", x)) {
							res.synTx[x]++
						}
					}
					l.mu.Unlock()
				}
			}
			if p.serverSendsFirst && !srvSent && s.hsReturned(0) && s.hsErr[0] == nil && s.hsReturned(1) && s.hsErr[1] == nil {
				// the first data-phase packet toward the client is a DATA packet of the server
				srvSent = true
				s.recv(0)
				s.send(1, []byte("server-first"))
				continue
			}
			if p.serverSendsFirst && srvSent && len(s.recvMsgs[0]) == 0 && time.Since(start) < 100*time.Second {
				if !moved {
					s.advance(250 * time.Millisecond)
				}
				continue
			}
			if s.hsReturned(0) && s.hsErr[0] == nil && p.sendData && !sent {
				sent = true
				s.send(0, []byte("hello"))
			}
			if s.hsReturned(1) && s.hsErr[1] == nil && s.conn[1] != nil {
				if _, rb := s.busy(1); !rb && len(s.recvMsgs[1]) == 0 {
					s.recv(1)
				}
			}
			if s.hsReturned(0) && s.hsErr[0] != nil {
				break
			}
			if len(s.recvMsgs[1]) > 0 && s.hsReturned(0) {
				// (a stale DATA packet can reach a server that stale handshake packets completed: that is no reason
				// to stop while the client is still shaking hands)
				break
			}
			if s.hsReturned(0) && s.hsReturned(1) && !p.sendData && cfg.ping == 0 {
				break
			}
			if !moved {
				s.advance(250 * time.Millisecond)
			}
		}
		// both completed and the first message arrived: late duplicates of handshake packets
		// are still queued or in flight; once they have been delivered data must keep flowing
		if len(s.recvMsgs[1]) > 0 && s.hsReturned(0) && s.hsErr[0] == nil && s.hsReturned(1) && s.hsErr[1] == nil {
			res.checkedAfter = true
			sent2 := false
			for it := 0; it < 400 && len(s.recvMsgs[1]) < 2; it++ {
				moved := false
				for x := 0; x < 2; x++ {
					if s.canOp(x) {
						s.op(x, "deliver")
						moved = true
					}
				}
				if sb, _ := s.busy(0); !sb && !sent2 {
					sent2 = true
					s.send(0, []byte("again"))
				}
				if _, rb := s.busy(1); !rb && len(s.recvMsgs[1]) < 2 {
					s.recv(1)
				}
				if !moved {
					s.advance(250 * time.Millisecond)
				}
			}
			res.flowsAfter = len(s.recvMsgs[1]) >= 2
			// ... and the other way: the first server->client message arrives on its first transmission (nothing
			// is dropped here; a read left over from the handshake would swallow it and cost a resend timeout)
			if res.flowsAfter {
				if _, rb := s.busy(0); !rb {
					s.recv(0)
				}
				if sb, _ := s.busy(1); !sb {
					before := len(s.recvMsgs[0])
					t0 := time.Now()
					s.send(1, []byte("back"))
					for it := 0; it < 40 && len(s.recvMsgs[0]) == before; it++ {
						moved := false
						for x := 0; x < 2; x++ {
							if s.canOp(x) {
								s.op(x, "deliver")
								moved = true
							}
						}
						if !moved {
							s.advance(50 * time.Millisecond)
						}
					}
					res.checkedBack = true
					res.backArrived = len(s.recvMsgs[0]) > before
					res.backTook = time.Since(t0)
				}
			}
		}
		// a client that restarted without its FIN getting through shakes hands again over the same transport: its
		// SYN (the same N) reaches the server's established connection, which must give up (its calls fail, the
		// application accepts anew) rather than swallow the SYNs for ever
		if res.checkedBack && res.backArrived && p.class == "handshake-loss-only" {
			s.injectRaw(0, syn(int(cfg.n)))
			for k := 0; k < 10; k++ {
				for x := 0; x < 2; x++ {
					for s.canOp(x) {
						s.op(x, "deliver")
					}
				}
				s.advance(100 * time.Millisecond)
			}
			res.checkedRestart = true
			res.serverGaveUp = isClosedQuick(s, 1)
		}
		res.virtual = time.Since(start)
		for x := 0; x < 2; x++ {
			res.hsRet[x] = s.hsReturned(x)
			res.hsOK[x] = res.hsRet[x] && s.hsErr[x] == nil
		}
		res.clientErr = res.hsRet[0] && s.hsErr[0] != nil
		res.delivered = len(s.recvMsgs[1]) > 0
		res.srvMsgArrived = len(s.recvMsgs[0]) > 0
		// a connection that was torn down is a visible failure: the client's calls return errors
		if res.hsOK[0] && s.conn[0] != nil && !res.delivered {
			if sb, _ := s.busy(0); !sb {
				s.conn[0].SetRecvTimeout(time.Millisecond)
				if _, rb := s.busy(0); !rb {
					_, err := s.conn[0].Recv()
					res.closedVisibly = err != nil && errEnum(err) != "err:recv-timeout"
				}
			}
		}
		res.srvN = -1
		if res.hsOK[1] && s.conn[1] != nil {
			n, _, _, _, _ := s.conn[1].VerifSnapshot()
			res.srvN = int(n)
		}
		s.finish(base)
	})
	l.o.line("END %s", cfg.id)
	if pan != "" {
		q.fail("c10:bubble-panic:"+p.class, fmt.Sprintf("scenario=%s: %s", cfg.id, truncate(pan, 300)))
	}
	return res
}

func syn(n int) []byte { return []byte{1, byte(n)} }

func TestGenC10(t *testing.T) {
	r := newRng(seed())
	o := newOut(t, "c10_hist.txt")
	defer o.close()
	q := newOracle(t, "c10")
	defer q.close()
	l := &evlog{o: o}
	id := 0

	check := func(cfg simCfg, p hsParams, res hsResult, foreign bool) {
		q.stat("scenarios", 1)
		q.stat("class_"+p.class, 1)
		q.stat("distinct_nontrivial", 1)
		desc := func() string {
			return fmt.Sprintf("scenario=%s class=%s n=%d pattern=%v staleAB=%x staleBA=%x keepalive=%v sendData=%v -> client hs=%v/%v server hs=%v/%v serverN=%d delivered=%v after %v; events %v",
				cfg.id, p.class, cfg.n, p.pattern, p.staleAB, p.staleBA, cfg.ping > 0, p.sendData, res.hsRet[0], res.hsOK[0], res.hsRet[1], res.hsOK[1], res.srvN, res.delivered, res.virtual, firstN(l.keep, 40))
		}
		// the server never runs with a window the client did not propose / that cannot be represented
		if res.hsOK[1] {
			q.check(res.srvN >= 1 && res.srvN <= 254, "c10:server-unrepresentable-n:"+p.class, desc)
			if !foreign {
				q.check(res.srvN == int(cfg.n), "c10:server-n-differs-from-client:"+p.class, desc)
			}
		}
		// "once the transport behaves a handshake succeeds and data flows": after both ends completed and
		// every late duplicate has been delivered, a second message still gets through
		onlyHs := true // a stale FIN legitimately closes and stale DATA/ACK/NACK belong to the data phase (C01/C06)
		for _, l := range [][][]byte{p.staleAB, p.staleBA} {
			for _, b := range l {
				if len(b) == 0 || (b[0] != 1 && b[0] != 6) {
					onlyHs = false
				}
			}
		}
		if res.checkedAfter && !foreign && onlyHs {
			q.stat("completed_then_second_message", 1)
			q.check(res.flowsAfter, "c10:completed-then-broken-by-late-handshake-packet:"+p.class, desc)
			if p.class == "late-answers" || p.class == "handshake-loss-only" {
				// the script only touches handshake packets: in the data phase nothing is lost, so nothing is
				// transmitted twice (a read left behind by the handshake swallows the first packet it sees)
				seen := map[string]int{}
				dup := ""
				for _, e := range l.keep {
					if strings.HasPrefix(e, "TX 0 02") || strings.HasPrefix(e, "TX 1 02") {
						seen[e]++
						if seen[e] == 2 && dup == "" {
							dup = e
						}
					}
				}
				q.check(dup == "", "c10:data-retransmitted-although-only-handshake-packets-were-lost:"+p.class, func() string {
					return desc() + "; retransmitted: " + dup
				})
			}
			if res.checkedRestart {
				q.check(res.serverGaveUp, "c10:server-keeps-its-connection-when-the-client-shakes-hands-again:"+p.class, func() string {
					return desc() + "; a SYN with the connection's own N arrived at the server in the data phase and its connection is still open"
				})
			}
			if res.checkedBack {
				q.check(res.backArrived && res.backTook < 900*time.Millisecond, "c10:first-packet-toward-the-client-lost-after-handshake:"+p.class, func() string {
					return desc() + fmt.Sprintf("; the server's first message over a loss-free transport: arrived=%v after %v (a resend timeout is 1 s)", res.backArrived, res.backTook)
				})
			}
		}
		// C20 at the handshake: a side that transmitted its SYN more than once cannot tell which copy the answer
		// belongs to, so the handshake gives it no round-trip sample: its resend timeout is still the default
		for x := 0; x < 2; x++ {
			if res.rtSeen[x] && res.synTx[x] >= 2 {
				x := x
				q.check(res.rtAfterHs[x] == time.Second, fmt.Sprintf("c20:handshake-sample-from-a-retransmitted-syn:side=%d", x), func() string {
					return fmt.Sprintf("%s; side %d sent its SYN %d times and has resend timeout %v right after the handshake (default 1s)", desc(), x, res.synTx[x], res.rtAfterHs[x])
				})
				q.stat("handshakes_with_retransmitted_syn", 1)
			}
		}
		// convergence: transport reliable for > 100 s. The client's application may be one that only receives (the
		// server is to speak first) over a connection without keepalive: then nothing is transmitted after the
		// handshake unless the handshake itself retries
		{
			serverErr := res.hsRet[1] && !res.hsOK[1]
			// the server's connection was torn down after its handshake (a stale FIN, or the real SYN arriving in
			// the data phase of a handshake that stale packets had completed): its calls fail, which is the error
			// "on the side that cannot proceed"; the application accepts again
			serverClosedVisibly := false
			hs1 := false
			for _, e := range l.keep {
				if e == "HS 1 ok" {
					hs1 = true
				}
				if hs1 && strings.HasPrefix(e, "RR 1 err:") && e != "RR 1 err:recv-timeout" {
					serverClosedVisibly = true
				}
			}
			conv := (res.hsOK[0] && res.hsOK[1] && (res.delivered || !p.sendData) && (p.sendData || !p.serverSendsFirst || res.srvMsgArrived)) ||
				res.clientErr || res.closedVisibly || serverErr || serverClosedVisibly
			st := func(ret, ok bool) string {
				if !ret {
					return "pending"
				}
				if ok {
					return "ok"
				}
				return "err"
			}
			staleSynToClient := "no"
			for _, b := range p.staleBA {
				if len(b) > 0 && b[0] == 1 {
					staleSynToClient = "yes"
				}
			}
			ka := "off"
			if cfg.ping > 0 {
				ka = "on"
			}
			key := fmt.Sprintf("c10:no-convergence:client=%s,server=%s,keepalive=%s,stale-syn-to-client=%s",
				st(res.hsRet[0], res.hsOK[0]), st(res.hsRet[1], res.hsOK[1]), ka, staleSynToClient)
			if !p.sendData && cfg.ping == 0 {
				sa := "none"
				if res.synackDelivered > 0 {
					sa = "delivered"
				} else if res.synackDropped > 0 {
					sa = "lost"
				}
				key += ",client-app=silent,synack=" + sa
				q.stat("convergence_checked_with_a_silent_client", 1)
			}
			q.check(conv, key, desc)
		}
	}
	mk := func(n int, keepalive bool) simCfg {
		id++
		c := simCfg{id: fmt.Sprintf("h%d", id), n: uint8(n), static: 0, hsTO: time.Second}
		if keepalive {
			c.ping, c.pong = 5*time.Second, 3*time.Second
		}
		return c
	}

	// (a) every drop / duplicate / deliver pattern over the first three packets of each direction
	opsAll := []string{"deliver", "keep", "drop"}
	cnt := 0
	for a := 0; a < 27; a++ {
		for b := 0; b < 27; b++ {
			cnt++
			if !thorough() && cnt%3 != int(seed()%3) {
				continue
			}
			pat := [2][]string{{opsAll[a%3], opsAll[a/3%3], opsAll[a/9]}, {opsAll[b%3], opsAll[b/3%3], opsAll[b/9]}}
			cfg := mk(r.pick([]int{1, 3, 20}), (a+b)%2 == 0)
			p := hsParams{class: "loss3x3", pattern: pat, sendData: true}
			check(cfg, p, runHandshakeScenario(t, l, q, cfg, p), false)
		}
	}
	// (a2) duplicated / retransmitted SYNs with the answer to them arriving late (so that a round-trip sample taken
	// from them would be visible in the resend timeout)
	for _, pat := range [][2][]string{
		{{"keep", "wait700"}, {}},            // SYN duplicated, SYNACK 700 ms late
		{{"keep", "deliver", "wait700"}, {}}, // the duplicate first, then the SYNACK late
		{{"deliver", "wait700"}, {"drop"}},   // the server's echo lost: the client retransmits its SYN
		{{"drop", "deliver", "wait600"}, {"wait500"}},
	} {
		for _, n := range []int{3, 20} {
			cfg := mk(n, false)
			p := hsParams{class: "late-answers", pattern: pat, sendData: true}
			check(cfg, p, runHandshakeScenario(t, l, q, cfg, p), false)
		}
	}
	// (a3) loss confined to the handshake: the first SYN, the first echo, or both
	for _, pat := range [][2][]string{{{"drop"}, {}}, {{}, {"drop"}}, {{"drop"}, {"drop"}}, {{"drop", "drop"}, {}}} {
		for _, n := range []int{2, 20} {
			for _, ka := range []bool{false, true} {
				cfg := mk(n, ka)
				p := hsParams{class: "handshake-loss-only", pattern: pat, sendData: true, serverSendsFirst: n == 20}
				check(cfg, p, runHandshakeScenario(t, l, q, cfg, p), false)
			}
		}
	}
	// (a4) a client whose application only receives (the server is to speak first), no keepalive: every
	// deliver / duplicate / drop pattern over the client's first three packets, the first echo delivered or lost
	for a := 0; a < 27; a++ {
		for _, echo := range []string{"deliver", "drop"} {
			pat := [2][]string{{opsAll[a%3], opsAll[a/3%3], opsAll[a/9]}, {echo}}
			cfg := mk([]int{1, 3, 20}[a%3], false)
			p := hsParams{class: "silent-client", pattern: pat, sendData: false, serverSendsFirst: true}
			check(cfg, p, runHandshakeScenario(t, l, q, cfg, p), false)
		}
	}
	// (b) all client window sizes
	for n := 0; n < 256; n++ {
		cfg := mk(n, false)
		p := hsParams{class: "all-n", sendData: n >= 1 && n <= 254}
		res := runHandshakeScenario(t, l, q, cfg, p)
		if n == 0 || n == 255 {
			q.check(res.clientErr && !res.hsOK[1], fmt.Sprintf("c10:client-accepts-unrepresentable-n:N=%d", n), func() string {
				return fmt.Sprintf("NewClientConn(n=%d): client hs ok=%v server hs ok=%v serverN=%d", n, res.hsOK[0], res.hsOK[1], res.srvN)
			})
			q.stat("distinct_nontrivial", 1)
			continue
		}
		check(cfg, p, res, false)
	}
	// (corpus) the known finding C10/stale-syn-completes-client-alone, deterministically
	{
		cfg := mk(20, false)
		p := hsParams{class: "stale-same-n", staleBA: [][]byte{syn(20)}, pattern: [2][]string{{"drop"}, {}}, sendData: true}
		check(cfg, p, runHandshakeScenario(t, l, q, cfg, p), false)
	}
	// (c) stale packets of an earlier connection in either direction, then faults
	stalePool := func(n int) [][]byte {
		return [][]byte{syn(n), {6}, {2, 0, 1, 0, 9}, {3, 0}, {4, 0}, {5}, {2, 1, 1, 1}}
	}
	for i := 0; i < scale(250, 5000); i++ {
		rr := r.sub(1000 + i)
		n := rr.pick([]int{1, 2, 20})
		cfg := mk(n, rr.chance(1, 2))
		pool := stalePool(n)
		var sa, sb [][]byte
		for k := rr.intn(4); k > 0; k-- {
			sa = append(sa, pool[rr.intn(len(pool))])
		}
		for k := rr.intn(4); k > 0; k-- {
			sb = append(sb, pool[rr.intn(len(pool))])
		}
		p := hsParams{class: "stale-same-n", staleAB: sa, staleBA: sb, sendData: true, r: rr, randomFaults: rr.intn(6),
			serverFirst: rr.chance(1, 3), clientFirst: rr.chance(1, 3)}
		check(cfg, p, runHandshakeScenario(t, l, q, cfg, p), false)
	}
	// (d) a stale SYN with a different window size (an earlier connection proposed it)
	for i := 0; i < scale(60, 1500); i++ {
		rr := r.sub(5000 + i)
		n := rr.pick([]int{2, 20})
		cfg := mk(n, true)
		other := n + 1 + rr.intn(3)
		if rr.chance(1, 4) {
			other = rr.pick([]int{0, 255})
		}
		var sa, sb [][]byte
		if rr.chance(2, 3) {
			sa = append(sa, syn(other))
		}
		if rr.chance(1, 2) {
			sb = append(sb, syn(other))
		}
		if len(sa)+len(sb) == 0 {
			sa = append(sa, syn(other))
		}
		p := hsParams{class: "stale-foreign-n", staleAB: sa, staleBA: sb, sendData: true, r: rr, randomFaults: rr.intn(4), clientFirst: rr.chance(1, 2)}
		res := runHandshakeScenario(t, l, q, cfg, p)
		check(cfg, p, res, true)
		// with a foreign stale SYN the server may echo it; it must still never run a window
		// the real client did not propose while that client also proceeds
		if res.hsOK[1] && res.hsOK[0] {
			q.check(res.srvN == n, "c10:foreign-stale-syn-window-split", func() string {
				return fmt.Sprintf("scenario=%s: client proposed n=%d, a stale SYN proposed %d; both constructors returned nil, server runs n=%d; events %v", cfg.id, n, other, res.srvN, firstN(l.keep, 40))
			})
		}
	}
	// (e) hostile SYN window values at a lone server, each in a child process
	for _, hc := range [][2]int{{0, -1}, {255, -1}, {1, -1}, {254, -1}, {0, 10}, {255, 10}, {255, 255}, {0, 254}, {7, 10}} {
		// hc[1] >= 0: a usable or unusable SYN is fed first, so that the hostile one arrives
		// while the server waits for the SYNACK
		n := hc[0]
		exit, outp := runChildT("30s", "TestChildHostileSyn", fmt.Sprintf("VERIF_SYN_N=%d", n), fmt.Sprintf("VERIF_SYN_PRE=%d", hc[1]))
		crashed := exit != 0
		verdict := ""
		for _, ln := range strings.Split(outp, "\n") {
			if strings.HasPrefix(ln, "VERDICT ") {
				verdict = strings.TrimPrefix(ln, "VERDICT ")
			}
		}
		q.stat("hostile_syn_children", 1)
		q.check(!crashed, fmt.Sprintf("c07:hostile-syn-crash:N=%d,pre=%d", n, hc[1]), func() string {
			return fmt.Sprintf("server fed SYN N=%d, SYNACK, DATA: process exit=%d, output tail: %s", n, exit, truncate(lastLines(outp, 12), 900))
		})
		if !crashed {
			if n == 0 || n == 255 {
				q.check(strings.Contains(verdict, "server-hs=err") || strings.Contains(verdict, "server-hs=pending"), fmt.Sprintf("c10:server-accepts-unrepresentable-n:N=%d,pre=%d", n, hc[1]), func() string {
					return fmt.Sprintf("server fed SYN N=%d, SYNACK: %s", n, verdict)
				})
			} else {
				q.check(strings.Contains(verdict, "server-hs=ok"), fmt.Sprintf("c10:server-rejects-valid-n:N=%d,pre=%d", n, hc[1]), func() string {
					return fmt.Sprintf("server fed SYN N=%d, SYNACK: %s", n, verdict)
				})
			}
		}
	}
	q.sample(fmt.Sprintf("loss3x3 patterns, all 256 client N, stale prefixes; last scenario events: %v", firstN(l.keep, 14)))
	t.Logf("scenarios=%d fails=%d", id, q.nfail)
}

func lastLines(s string, n int) string {
	ls := strings.Split(strings.TrimSpace(s), "\n")
	if len(ls) > n {
		ls = ls[len(ls)-n:]
	}
	return strings.Join(ls, " | ")
}

// TestChildHostileSyn: a lone server is fed SYN N, SYNACK and one DATA packet
// by a scripted peer. Only meaningful as a child process (see runChild).
func TestChildHostileSyn(t *testing.T) {
	if os.Getenv("VERIF_CHILD") == "" {
		t.Skip("child only")
	}
	n := int(envInt("VERIF_SYN_N", 255))
	o := newOut(t, fmt.Sprintf("child_hostile_syn_%d_%d.txt", n, envInt("VERIF_SYN_PRE", -1)))
	defer o.close()
	l := &evlog{o: o}
	verdict := "none"
	synctest.Test(t, func(t *testing.T) {
		l.start = time.Now()
		base := runtime.NumGoroutine()
		s := newSim(t, l, simCfg{id: "child", n: 20, hsTO: time.Second})
		s.startEndpoints(1)
		synctest.Wait()
		feed := func(b []byte) {
			s.injectRaw(0, b)
			for s.canOp(0) {
				s.op(0, "deliver")
			}
			synctest.Wait()
		}
		if pre := int(envInt("VERIF_SYN_PRE", -1)); pre >= 0 {
			feed(syn(pre))
		}
		feed(syn(n))
		feed([]byte{6})
		s.advance(100 * time.Millisecond)
		switch {
		case !s.hsReturned(1):
			verdict = "server-hs=pending"
		case s.hsErr[1] != nil:
			verdict = "server-hs=err"
		default:
			verdict = "server-hs=ok"
			// exercise both goroutines of the connection
			feed([]byte{2, 0, 1, 0, 7})
			s.send(1, []byte("x"))
			s.advance(3 * time.Second)
			nn, ss, _, _, _ := s.conn[1].VerifSnapshot()
			verdict += fmt.Sprintf(" n=%d s=%d", nn, ss)
		}
		s.finish(base)
	})
	fmt.Printf("VERDICT %s\n", verdict)
}
