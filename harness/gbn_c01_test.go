package harness

import (
	"bytes"
	"fmt"
	"runtime"
	"testing"
	"testing/synctest"
	"time"
)

// Histories of real GBN connections under scripted / random channel faults
// (C01, C09, C14 and the data-phase part of C07). Every history goes through
// the extracted Coq monitor (ocaml/run_gbn.ml); the direct oracles here are
// the properties' own statements evaluated on the implementation's results.

type faultProfile struct {
	name               string
	pDrop, pDup, pHold int // per-mille, applied to each channel decision
	dropAcksFor        int // drop every ACK/NACK for this many decisions at the start
	dropKth            int // drop exactly the k-th DATA packet (1-based; 0 = off)
}

type dataParams struct {
	msgs      [2]int
	maxSize   int
	steps     int
	prof      faultProfile
	recvEager bool
	explicit  *[2][][]byte // when set: exactly these messages
	prop      string       // oracle key prefix (default c01)
	hsPattern *[2][]string // when set: the handshake runs over this loss / duplication script
}

func isCtrl(b []byte) bool { return len(b) > 0 && (b[0] == 3 || b[0] == 4) }
func isData(b []byte) bool { return len(b) > 0 && b[0] == 2 }

func (s *sim) head(x int) []byte {
	s.mu.Lock()
	defer s.mu.Unlock()
	if len(s.ch[x]) == 0 {
		return nil
	}
	return s.ch[x][0]
}

func runDataScenario(t *testing.T, l *evlog, q *oracle, cfg simCfg, r *rng, p dataParams) {
	l.keep = l.keep[:0]
	srvChunk := cfg.chunk // the server's own maximum chunk size: same as the client's unless configured otherwise
	if cfg.srvChunk > 0 {
		srvChunk = cfg.srvChunk
	} else if cfg.srvChunk < 0 {
		srvChunk = 0
	}
	l.o.line("BEGIN %s n=%d chunk=%d srvchunk=%d", cfg.id, cfg.n, cfg.chunk, srvChunk)
	var leaked []string
	pan := bubble(t, func(t *testing.T) {
		l.start = time.Now()
		l.last = 0
		base := runtime.NumGoroutine()
		s := newSim(t, l, cfg)
		if p.hsPattern == nil && !s.cleanHandshake() {
			q.fail("gbn:clean-handshake-failed", fmt.Sprintf("scenario %s: clean handshake did not complete", cfg.id))
			s.finish(base)
			return
		}
		// messages
		var todo [2][][]byte
		if p.explicit != nil {
			todo = *p.explicit
		}
		if p.hsPattern != nil {
			poke := append([]byte{200}, r.bytes(3)...)
			ok, poked := s.scriptedHandshake(*p.hsPattern, poke)
			if !ok {
				// a handshake that fails under loss is a visible failure (C10's business), not a data-phase fact
				q.stat("scripted_handshake_failed", 1)
				s.finish(base)
				return
			}
			if poked {
				q.stat("server_handshake_completed_by_data", 1)
			}
		}
		for x := 0; x < 2 && p.explicit == nil; x++ {
			for i := 0; i < p.msgs[x]; i++ {
				sz := r.intn(p.maxSize + 1)
				if r.chance(1, 6) {
					sz = r.pick([]int{1, 2, cfg.chunk, cfg.chunk + 1, 2 * cfg.chunk, p.maxSize})
				}
				if sz <= 0 {
					sz = 1
				}
				m := r.bytes(sz)
				m[0] = byte(x*100 + i) // make messages distinguishable
				todo[x] = append(todo[x], m)
			}
		}
		decisions, dataSeen := 0, [2]int{}
		decide := func(x int) {
			h := s.head(x)
			decisions++
			what := "deliver"
			switch {
			case isCtrl(h) && decisions <= p.prof.dropAcksFor:
				what = "drop"
			case isData(h) && p.prof.dropKth > 0:
				dataSeen[x]++
				if dataSeen[x] == p.prof.dropKth {
					what = "drop"
				}
			default:
				v := r.intn(1000)
				if v < p.prof.pDrop {
					what = "drop"
				} else if v < p.prof.pDrop+p.prof.pDup {
					what = "keep"
				} else if v < p.prof.pDrop+p.prof.pDup+p.prof.pHold {
					return // not yet
				}
			}
			s.op(x, what)
		}
		for step := 0; step < p.steps; step++ {
			x := r.intn(2)
			switch a := r.intn(10); {
			case a < 5:
				if s.canOp(x) {
					decide(x)
				} else if s.canOp(1 - x) {
					decide(1 - x)
				}
			case a < 7:
				if sb, _ := s.busy(x); !sb && len(todo[x]) > 0 {
					s.send(x, todo[x][0])
					todo[x] = todo[x][1:]
				}
			case a < 9:
				if _, rb := s.busy(x); !rb && (p.recvEager || r.chance(1, 2)) {
					s.recv(x)
				}
			default:
				s.advance(time.Duration(r.pick([]int{0, 1, 100, 400, 1000, 1500, 3100})) * time.Millisecond)
			}
		}
		// reliable suffix: everything is delivered, time passes
		suffixStart := time.Now()
		for it := 0; it < 100000 && time.Since(suffixStart) < 200*time.Second; it++ {
			done := true
			for x := 0; x < 2; x++ {
				sb, rb := s.busy(x)
				if !sb && len(todo[x]) > 0 {
					s.send(x, todo[x][0])
					todo[x] = todo[x][1:]
				}
				if !rb && len(s.recvMsgs[x]) < len(s.sentMsgs[1-x])+len(todo[1-x]) && !s.closed[x] {
					s.recv(x)
				}
				if len(todo[x]) > 0 || len(s.recvMsgs[1-x]) < len(s.sentMsgs[x]) {
					done = false
				}
				if sb, _ := s.busy(x); sb {
					done = false
				}
			}
			moved := false
			for x := 0; x < 2; x++ {
				for k := 0; k < 8 && s.canOp(x); k++ {
					s.op(x, "deliver")
					moved = true
				}
			}
			if done && !moved {
				break
			}
			if !moved {
				s.advance(500 * time.Millisecond)
			}
		}
		synctest.Wait()
		s.snapshot(0)
		s.snapshot(1)

		// ---- direct oracle, C01: Recv results are a prefix of the peer's Send calls ----
		for y := 0; y < 2; y++ {
			x := 1 - y
			ok := len(s.recvMsgs[y]) <= len(s.sentMsgs[x])
			for i := 0; ok && i < len(s.recvMsgs[y]); i++ {
				ok = bytes.Equal(s.recvMsgs[y][i], s.sentMsgs[x][i])
			}
			pfx := "c01"
			if p.prop != "" {
				pfx = p.prop
			}
			q.check(ok, fmt.Sprintf("%s:prefix:%s", pfx, p.prof.name), func() string {
				return fmt.Sprintf("scenario=%s n=%d chunk=%d side %d received %d messages that are not a prefix of the %d sent by its peer; seed-derived; first events: %v",
					cfg.id, cfg.n, cfg.chunk, y, len(s.recvMsgs[y]), len(s.sentMsgs[x]), firstN(l.keep, 60))
			})
			if i := s.overwritten(y); true {
				q.check(i < 0, fmt.Sprintf("%s:returned-message-overwritten-later", pfx), func() string {
					return fmt.Sprintf("scenario=%s n=%d chunk=%d: the slice side %d obtained from Recv #%d held %x when it was returned and holds %x after later Recv calls (sent lengths %v)",
						cfg.id, cfg.n, cfg.chunk, y, i, s.recvMsgs[y][i], s.recvRaw[y][i], lens(s.sentMsgs[x]))
				})
			}
			// with a reliable suffix long enough everything arrives (liveness; reported under C06's key)
			key := fmt.Sprintf("c06:undelivered-after-reliable-suffix:%s", p.prof.name)
			if p.prop == "c14" {
				key = "c14:one-recv-per-send"
				for i, m := range s.sentMsgs[x] {
					if len(m) == 0 && i >= len(s.recvMsgs[y]) {
						key = "c14:one-recv-per-send:empty-payload-with-chunking"
					}
				}
			}
			if cfg.ping > 0 && (isClosedQuick(s, 0) || isClosedQuick(s, 1)) {
				// a keepalive timeout during the fault phase closed the connection: a visible failure
				q.stat("closed_by_keepalive", 1)
				continue
			}
			q.check(len(s.recvMsgs[y]) == len(s.sentMsgs[x]), key, func() string {
				return fmt.Sprintf("scenario=%s n=%d chunk=%d: side %d received %d of %d messages after 200 s of reliable transport; sent lengths %v",
					cfg.id, cfg.n, cfg.chunk, y, len(s.recvMsgs[y]), len(s.sentMsgs[x]), lens(s.sentMsgs[x]))
			})
		}
		q.stat("messages_sent", len(s.sentMsgs[0])+len(s.sentMsgs[1]))
		q.stat("packets_transmitted", s.txCount[0]+s.txCount[1])
		leaked = s.finish(base)
	})
	l.o.line("END %s", cfg.id)
	if pan != "" {
		q.fail("gbn:bubble-panic", fmt.Sprintf("scenario=%s: %s", cfg.id, truncate(pan, 300)))
	}
	for _, g := range leaked {
		q.fail("c12:leak:"+g, fmt.Sprintf("scenario=%s: goroutine left running after both ends were closed: %s", cfg.id, g))
	}
	q.stat("scenarios", 1)
	q.stat("profile_"+p.prof.name, 1)
	q.stat(fmt.Sprintf("n_%d", cfg.n), 1)
}

func firstN(l []string, n int) []string {
	if len(l) > n {
		return l[:n]
	}
	return l
}
func truncate(s string, n int) string {
	if len(s) > n {
		return s[:n]
	}
	return s
}

var profiles = []faultProfile{
	{name: "clean"},
	{name: "light", pDrop: 50, pDup: 50, pHold: 100},
	{name: "heavy", pDrop: 250, pDup: 150, pHold: 200},
	{name: "dupstorm", pDrop: 20, pDup: 450, pHold: 50},
	{name: "dropacks", pDrop: 30, pDup: 30, dropAcksFor: 25},
	{name: "holdmost", pDrop: 50, pDup: 50, pHold: 700},
}

func TestGenGbn(t *testing.T) {
	r := newRng(seed())
	o := newOut(t, "gbn_hist.txt")
	defer o.close()
	q := newOracle(t, "gbn")
	defer q.close()
	l := &evlog{o: o}

	ns := []int{1, 2, 3, 4, 20, 254}
	if thorough() {
		ns = []int{1, 2, 3, 4, 7, 20, 127, 254}
	}
	total := scale(2500, 60000)
	id := 0
	run := func(n, chunk int, p dataParams) {
		id++
		cfg := simCfg{id: fmt.Sprintf("g%d", id), n: uint8(n), chunk: chunk, static: 0}
		rr := r.sub(id)
		if rr.chance(1, 2) {
			cfg.static = time.Second
		}
		if rr.chance(1, 3) {
			// a handshake timeout above the resend timeout, as the mailbox configures it (2 s): the handshake
			// timeout doubles as the minimum distance between two resend rounds
			cfg.hsTO = time.Duration(rr.pick([]int{2000, 5000})) * time.Millisecond
			q.stat("long_handshake_timeout_scenarios", 1)
		}
		if rr.chance(1, 4) {
			// keepalive on: idle pings consume sequence numbers between the messages
			// (a ping period below the resend timeout puts several pings in flight at once)
			cfg.ping = time.Duration(rr.pick([]int{300, 1000, 1500, 3000})) * time.Millisecond
			cfg.pong = time.Duration(rr.pick([]int{800, 2000, 5000})) * time.Millisecond
			q.stat("keepalive_scenarios", 1)
		}
		runDataScenario(t, l, q, cfg, rr, p)
		if id <= 3 {
			q.sample(fmt.Sprintf("scenario %s n=%d chunk=%d profile=%s msgs=%v: %d events, first: %v", cfg.id, n, chunk, p.prof.name, p.msgs, len(l.keep), firstN(l.keep, 12)))
		}
	}
	// drop exactly the k-th DATA packet, for all k in the first two windows
	for _, n := range []int{1, 2, 3, 4} {
		for k := 1; k <= 2*n+1; k++ {
			run(n, 0, dataParams{msgs: [2]int{2*n + 3, 1}, maxSize: 8, steps: 60,
				prof: faultProfile{name: "dropkth", dropKth: k}, recvEager: true})
		}
	}
	// data phase after a handshake that needed retransmissions / a server restart, for windows other than the default
	for _, n := range []int{1, 2, 3, 5, 19, 21, 30, 254} {
		for _, pat := range [][2][]string{
			{{"deliver", "drop"}, {}}, // the client's SYNACK is lost: the server restarts and is completed by DATA
			{{"drop"}, {}},            // the client's first SYN is lost
			{{}, {"drop"}},            // the server's SYN echo is lost
			{{"keep"}, {"keep"}},      // duplicated SYN and echo
		} {
			pat := pat
			id++
			cfg := simCfg{id: fmt.Sprintf("g%d", id), n: uint8(n), hsTO: time.Second, static: time.Second}
			runDataScenario(t, l, q, cfg, r.sub(id), dataParams{msgs: [2]int{n + 12, 3}, maxSize: 6, steps: 40,
				prof: faultProfile{name: "after-lossy-handshake"}, recvEager: true, hsPattern: &pat})
		}
	}
	for i := 0; i < total; i++ {
		n := ns[i%len(ns)]
		chunk := r.pick([]int{0, 0, 1, 3, 16})
		prof := profiles[r.intn(len(profiles))]
		maxSize := r.pick([]int{4, 40, 300})
		if chunk > 0 && maxSize > 12*chunk {
			maxSize = 12 * chunk
		}
		run(n, chunk, dataParams{
			msgs:    [2]int{r.intn(12), r.intn(12)},
			maxSize: maxSize,
			steps:   r.pick([]int{40, 120, 300}),
			prof:    prof, recvEager: r.chance(2, 3),
		})
	}
	q.stat("distinct_nontrivial", id)
	t.Logf("scenarios=%d events=%d fails=%d", id, l.n, q.nfail)
}

func lens(ms [][]byte) []int {
	var r []int
	for _, m := range ms {
		r = append(r, len(m))
	}
	return r
}

// C14: every payload length x every chunk size, pairs of consecutive
// messages, clean and faulty transports.
func TestGenC14(t *testing.T) {
	r := newRng(seed())
	o := newOut(t, "c14_hist.txt")
	defer o.close()
	q := newOracle(t, "c14")
	defer q.close()
	l := &evlog{o: o}
	id := 0
	maxL, maxC := scale(24, 40), scale(9, 12)
	for c := 0; c <= maxC; c++ {
		for L := 0; L <= maxL; L++ {
			id++
			rr := r.sub(id)
			m1 := rr.bytes(L)
			m2 := rr.bytes(rr.intn(maxL + 1))
			m3 := rr.bytes(L)
			ex := [2][][]byte{{m1, m2, m3}, {m3, m1}}
			prof := profiles[0]
			if id%3 == 0 {
				prof = profiles[1+rr.intn(len(profiles)-1)]
			}
			cfg := simCfg{id: fmt.Sprintf("k%d", id), n: uint8(rr.pick([]int{1, 2, 3, 20})), chunk: c, static: time.Second}
			runDataScenario(t, l, q, cfg, rr, dataParams{steps: 40, prof: prof, recvEager: true, explicit: &ex, prop: "c14"})
			q.stat(fmt.Sprintf("chunk_%d", c), 1)
		}
	}
	// the two endpoints configured with different maximum chunk sizes (one of them possibly with none): where a
	// message ends is decided by the sender's FinalChunk flags alone
	for _, cc := range [][2]int{{4, -1}, {0, 4}, {1, 7}, {7, 1}, {3, -1}, {0, 1}, {16, 5}} {
		for _, L := range []int{0, 1, 3, 4, 5, 9, 10, 33} {
			id++
			rr := r.sub(id)
			ex := [2][][]byte{{rr.bytes(L), rr.bytes(2), rr.bytes(L + 1)}, {rr.bytes(L), rr.bytes(11)}}
			cfg := simCfg{id: fmt.Sprintf("k%d", id), n: uint8(rr.pick([]int{1, 3, 20})), chunk: cc[0], srvChunk: cc[1], static: time.Second}
			runDataScenario(t, l, q, cfg, rr, dataParams{steps: 40, prof: profiles[0], recvEager: true, explicit: &ex, prop: "c14"})
			q.stat("asymmetric_chunk_configs", 1)
		}
	}
	// random large payloads
	for i := 0; i < scale(30, 600); i++ {
		id++
		rr := r.sub(id)
		c := rr.pick([]int{0, 1, 7, 64, 1000, 4096})
		ex := [2][][]byte{{rr.bytes(rr.intn(20000)), rr.bytes(rr.intn(3))}, {rr.bytes(rr.intn(5000))}}
		if c > 0 && c < 64 {
			ex = [2][][]byte{{rr.bytes(rr.intn(40 * c)), rr.bytes(rr.intn(3))}, {rr.bytes(rr.intn(20 * c))}}
		}
		cfg := simCfg{id: fmt.Sprintf("k%d", id), n: uint8(rr.pick([]int{1, 4, 20, 254})), chunk: c}
		runDataScenario(t, l, q, cfg, rr, dataParams{steps: 60, prof: profiles[rr.intn(3)], recvEager: true, explicit: &ex, prop: "c14"})
	}
	q.stat("distinct_nontrivial", id)
	q.sample(fmt.Sprintf("lengths 0..%d x chunk sizes 0..%d, three messages client->server and two back; last scenario events: %v", maxL, maxC, firstN(l.keep, 10)))
}
