package harness

import (
	"fmt"
	"testing"

	"github.com/lightninglabs/lightning-node-connect/gbn"
)

// Differential tie of the go2coq-generated window functions (C07, C09, C01):
// containsSequence exhaustively (2^24 triples, as 65536 bitmaps), the queue
// operations for every (base, top, seq) of small sequence spaces and a random
// stream for large ones, syncer.initResendUpTo for every (s, top).

func qopString(s, base, top uint8, op string, seq uint8) string {
	r := gbn.VerifQueueOp(s, base, top, op, seq)
	if r.Panicked {
		return "panic"
	}
	return fmt.Sprintf("%d %d %d %d %d", r.Base, r.Top, b2i(r.R1), b2i(r.R2), r.Size)
}

func TestGenQueue(t *testing.T) {
	r := newRng(seed())
	o := newOut(t, "queue_impl.txt")
	defer o.close()
	q := newOracle(t, "queue")
	defer q.close()

	// containsSequence: all 2^24 triples
	for base := 0; base < 256; base++ {
		for top := 0; top < 256; top++ {
			var bm [32]byte
			for seq := 0; seq < 256; seq++ {
				if gbn.VerifContainsSequence(uint8(base), uint8(top), uint8(seq)) {
					bm[seq/8] |= 1 << (seq % 8)
				}
			}
			o.line("CS %d %d %s", base, top, hx(bm[:]))
		}
	}
	q.stat("containsSequence_triples", 1<<24)

	ops := []string{"size", "add", "ack", "nack"}
	emit := func(s, base, top int, op string, seq int) {
		res := qopString(uint8(s), uint8(base), uint8(top), op, uint8(seq))
		o.line("Q %s %d %d %d %d %s", op, s, base, top, seq, res)
		q.stat("queue_ops", 1)
		// direct oracle (C07/C09): from an in-range state (base,top < s, s>=2) no panic, and
		// the bookkeeping stays in range
		if s >= 2 && base < s && top < s {
			q.stat("distinct_nontrivial", 1)
			key := fmt.Sprintf("queue:%s:%s", op, classify(s, base, top, seq))
			if res == "panic" {
				q.check(false, key+":panic", func() string {
					return fmt.Sprintf("op=%s s=%d base=%d top=%d seq=%d panics", op, s, base, top, seq)
				})
				return
			}
			var nb, nt, r1, r2, sz int
			fmt.Sscanf(res, "%d %d %d %d %d", &nb, &nt, &r1, &r2, &sz)
			q.check(nb < s && nt < s, key+":out-of-range", func() string {
				return fmt.Sprintf("op=%s s=%d base=%d top=%d seq=%d -> base=%d top=%d (outside the sequence space)", op, s, base, top, seq, nb, nt)
			})
			if (op == "ack" || op == "nack") && nb < s && nt < s {
				// the window may only shrink: new base stays inside the cyclic interval [base, top]
				before := ((top-base)%s + s) % s
				after := ((nt-nb)%s + s) % s
				q.check(nt == top && after <= before, key+":window-grew", func() string {
					return fmt.Sprintf("op=%s s=%d base=%d top=%d seq=%d -> base=%d top=%d: outstanding %d -> %d", op, s, base, top, seq, nb, nt, before, after)
				})
			}
		}
	}
	small := []int{0, 1, 2, 3, 4, 5, 8, 9, 16}
	for _, s := range small {
		lim := s
		if lim < 3 {
			lim = 3 // also some out-of-range states for the tiny spaces
		}
		for base := 0; base < lim; base++ {
			for top := 0; top < lim; top++ {
				for _, op := range ops {
					if op == "size" || op == "add" {
						emit(s, base, top, op, 0)
						continue
					}
					for seq := 0; seq < 256; seq++ {
						emit(s, base, top, op, seq)
					}
				}
			}
		}
	}
	n := scale(150000, 3000000)
	for i := 0; i < n; i++ {
		s := r.pick([]int{21, 21, 21, 64, 128, 129, 200, 255, 255})
		base, top := r.intn(s), r.intn(s)
		if r.chance(1, 50) {
			base = r.intn(256)
		}
		seq := r.intn(256)
		if r.chance(1, 2) {
			seq = r.intn(s)
		}
		emit(s, base, top, ops[r.intn(4)], seq)
	}

	// syncer.initResendUpTo: every (s, top)
	for s := 0; s < 256; s++ {
		for top := 0; top < 256; top++ {
			a, nk, p := gbn.VerifSyncerInit(uint8(s), uint8(top))
			if p {
				o.line("SY %d %d panic", s, top)
			} else {
				o.line("SY %d %d %d %d", s, top, a, nk)
			}
			// direct oracles (C07/C09; Coq: initResendUpTo_total / _in_range / _predecessor): a non-empty
			// sequence space never panics; for top inside it the expected NACK is top, the expected ACK is
			// inside the space, and is the predecessor of top whenever s+top-1 fits a uint8
			if s >= 1 {
				s, top := s, top
				q.check(!p, "queue:syncer:panic", func() string {
					return fmt.Sprintf("syncer.initResendUpTo s=%d top=%d panics", s, top)
				})
				if !p && top < s {
					a, nk := int(a), int(nk)
					q.check(nk == top && a < s, "queue:syncer:range", func() string {
						return fmt.Sprintf("syncer.initResendUpTo s=%d top=%d: expectedACK=%d expectedNACK=%d "+
							"(want NACK=top, ACK < s)", s, top, a, nk)
					})
					if s+top <= 256 {
						q.check((a+1)%s == top, "c09:syncer:predecessor", func() string {
							return fmt.Sprintf("syncer.initResendUpTo s=%d top=%d: expectedACK=%d is not the "+
								"predecessor of top (%d) although s+top-1 fits a uint8", s, top, a, (top+s-1)%s)
						})
					}
				}
			}
		}
	}
	q.stat("syncer_init_pairs", 65536)
	q.sample("Q ack s=4 base=3 top=1 seq=0 -> " + qopString(4, 3, 1, "ack", 0))
	q.sample("Q nack s=21 base=15 top=3 seq=200 -> " + qopString(21, 15, 3, "nack", 200))
}

func classify(s, base, top, seq int) string {
	w := "plain"
	if top < base {
		w = "wrapped"
	} else if top == base {
		w = "empty"
	}
	if seq >= s {
		return w + ":seq>=s"
	}
	return w + ":seq<s"
}
