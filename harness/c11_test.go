package harness

import (
	"bytes"
	"context"
	"fmt"
	"net"
	"runtime"
	"strings"
	"sync"
	"testing"
	"testing/synctest"
	"time"

	"github.com/lightninglabs/lightning-node-connect/mailbox"
)

// C11: mailbox.Server.Accept / mailbox.Client.Dial over the fake relay:
// one live connection per session, a fresh one after a close, and the switch to
// the key-derived rendezvous (and the KK pattern) after the first pairing.
func TestGenC11(t *testing.T) {
	r := newRng(seed())
	o := newOut(t, "c11_impl.txt")
	defer o.close()
	q := newOracle(t, "c11")
	defer q.close()
	n := scale(12, 200)
	for sc := 0; sc < n; sc++ {
		rr := r.sub(sc)
		rounds := 2 + rr.intn(3)
		var lines []string
		pan := bubble(t, func(t *testing.T) {
			base := runtime.NumGoroutine()
			start := time.Now()
			var evMu sync.Mutex // Accept and Dial log from their own goroutines
			ev := func(side string, format string, a ...interface{}) {
				evMu.Lock()
				lines = append(lines, fmt.Sprintf("%s %d %s", side, int64(time.Since(start)), fmt.Sprintf(format, a...)))
				evMu.Unlock()
			}
			relay := newFakeRelay()
			ctx, cancel := context.WithCancel(context.Background())
			entropy := rr.bytes(14)
			auth := []byte("macaroon")
			skC, skS := privFromRng(rr), privFromRng(rr)
			cdC := mailbox.NewConnData(keyECDH(skC), nil, entropy, nil, nil, nil)
			cdS := mailbox.NewConnData(keyECDH(skS), nil, entropy, auth, nil, nil)
			srv, err1 := mailbox.VerifNewServer("relay", cdS, relay, func(mailbox.ServerStatus) {})
			cli, err2 := mailbox.VerifNewClient(ctx, "relay", cdC, relay)
			if err1 != nil || err2 != nil {
				q.fail("c11:setup", fmt.Sprintf("%v %v", err1, err2))
				cancel()
				return
			}
			var mu sync.Mutex
			type handed struct {
				conn   net.Conn
				closed bool
			}
			var sConns, cConns []*handed
			sidsBefore := map[string]bool{}
			type pend struct {
				done chan struct{}
				conn net.Conn
			}
			startAccept := func(round int) *pend {
				p := &pend{done: make(chan struct{})}
				go func() {
					defer close(p.done)
					ev("S", "call")
					c, err := srv.Accept()
					mu.Lock()
					defer mu.Unlock()
					if err != nil {
						ev("S", "fail")
						return
					}
					// exclusivity: no earlier handed-out server connection may still be open
					for _, h := range sConns {
						q.check(h.closed, "c11:second-connection-while-first-open:server", func() string {
							return fmt.Sprintf("scenario %d round %d: Accept returned while the previous connection was still open", sc, round)
						})
					}
					ev("S", "ret %d", len(sConns))
					sConns = append(sConns, &handed{conn: c})
					p.conn = c
				}()
				return p
			}
			startDial := func(round int) *pend {
				p := &pend{done: make(chan struct{})}
				go func() {
					defer close(p.done)
					ev("C", "call")
					c, err := cli.Dial(ctx, "")
					mu.Lock()
					defer mu.Unlock()
					if err != nil {
						ev("C", "fail")
						return
					}
					for _, h := range cConns {
						q.check(h.closed, "c11:second-connection-while-first-open:client", func() string {
							return fmt.Sprintf("scenario %d round %d: Dial returned while the previous connection was still open", sc, round)
						})
					}
					ev("C", "ret %d", len(cConns))
					cConns = append(cConns, &handed{conn: c})
					p.conn = c
				}()
				return p
			}
			// eager: like a gRPC Serve loop, the server calls Accept again as soon as the previous Accept
			// returned, i.e. before the pairing handshake on that connection has stored the peer's key
			eager := rr.chance(1, 2)
			// faultyClose: the relay reports errors when streams are closed
			faultyClose := rr.chance(1, 3)
			// plainKit: a quarter of the scenarios use the mailbox connections without the Noise layer (the session
			// then stays at the pass-phrase rendezvous: every reconnect takes the refresh path)
			plainKit := sc%4 == 3
			credS, credC := mailbox.NewNoiseGrpcConn(cdS), mailbox.NewNoiseGrpcConn(cdC)
			var nextAccept *pend
			var clientRecvSID [64]byte
			haveClientRecvSID := false
			for round := 0; round < rounds; round++ {
				// Accept and Dial are issued at a random offset relative to the previous close:
				// "early" = while the previous connection is still open
				early := round > 0 && rr.chance(1, 2)
				var sc2, cc2 net.Conn
				var pa, pd *pend
				relay.mu.Lock()
				seenAtRoundStart := len(relay.seen)
				relay.mu.Unlock()
				if nextAccept != nil {
					pa, nextAccept = nextAccept, nil // issued while the previous round's pairing was still going on
				}
				call := func() {
					if pa == nil {
						pa = startAccept(round)
					}
					pd = startDial(round)
				}
				closePrev := func() {
					if round == 0 {
						return
					}
					// close by client or by server; the other side closes when its calls fail
					mu.Lock()
					ps, pc := sConns[len(sConns)-1], cConns[len(cConns)-1]
					mu.Unlock()
					first, second := ps, pc
					fs, ss := "S", "C"
					if rr.chance(1, 2) {
						first, second = pc, ps
						fs, ss = "C", "S"
					}
					relay.setFailClose(faultyClose)
					// "closed" is recorded when Close is CALLED: a Dial / Accept that waits for the previous connection
					// is released inside that call (Done() is closed before Close returns) and may log its return
					// first. One that does not wait at all returns when it is issued, long before this point.
					mu.Lock()
					first.closed = true
					ev(fs, "closed %d", round-1)
					mu.Unlock()
					_ = first.conn.Close()
					synctest.Wait()
					time.Sleep(time.Duration(rr.intn(1500)) * time.Millisecond)
					mu.Lock()
					second.closed = true
					ev(ss, "closed %d", round-1)
					mu.Unlock()
					_ = second.conn.Close()
					synctest.Wait()
					relay.setFailClose(false)
				}
				if early {
					call()
					synctest.Wait()
					time.Sleep(time.Duration(rr.intn(2000)) * time.Millisecond)
					synctest.Wait()
					closePrev()
				} else {
					closePrev()
					time.Sleep(time.Duration(rr.intn(2000)) * time.Millisecond)
					if haveClientRecvSID && rr.chance(1, 2) {
						// packets of the previous connection still sitting in the client's receive mailbox: the new
						// handshake must skip them (anything but a SYN is ignored while waiting for the SYN)
						for _, stale := range [][]byte{{3, 0}, {4, 1}, {2, 0, 1, 1}}[:1+rr.intn(3)] {
							if relay.inject(string(clientRecvSID[:]), stale) {
								q.stat("stale_packets_before_redial", 1)
							}
						}
					}
					call()
				}
				done := make(chan struct{})
				go func(pa, pd *pend) { <-pa.done; <-pd.done; close(done) }(pa, pd)
				for i := 0; i < 200; i++ {
					select {
					case <-done:
						i = 1000
					default:
						time.Sleep(250 * time.Millisecond)
						synctest.Wait()
					}
				}
				select {
				case <-done:
					sc2, cc2 = pa.conn, pd.conn
				default:
				}
				if (sc2 == nil || cc2 == nil) && round >= 1 {
					// which rendezvous did the two parties use in this round?
					relay.mu.Lock()
					oldIDs, newIDs := 0, 0
					seenID := map[string]bool{}
					for _, m := range relay.seen[seenAtRoundStart:] {
						if !seenID[m.stream] {
							seenID[m.stream] = true
							if sidsBefore[m.stream] {
								oldIDs++
							} else {
								newIDs++
							}
						}
					}
					for id := range relay.boxes { // a party waiting at a rendezvous has created its mailboxes there
						if !sidsBefore[id] && !seenID[id] {
							seenID[id] = true
							newIDs++
						}
					}
					relay.mu.Unlock()
					q.check(!(oldIDs > 0 && newIDs > 0), "c17:parties-at-different-rendezvous-after-pairing", func() string {
						return fmt.Sprintf("scenario %d round %d: after the pairing no connection came about; in this round the relay saw traffic or new mailboxes on %d pass-phrase-derived and %d key-derived streams: one party moved to the new rendezvous, the other did not", sc, round, oldIDs, newIDs)
					})
				}
				if sc2 == nil || cc2 == nil {
					q.fail("c11:no-fresh-connection", fmt.Sprintf("scenario %d round %d: Accept/Dial did not return a connection within 50 s (server %v client %v)", sc, round, sc2 != nil, cc2 != nil))
					break
				}
				// C17 on every (re)connection: the client's send stream is the server's receive stream and vice
				// versa, and the two directions differ
				if a0, ok := cc2.LocalAddr().(*mailbox.Addr); ok {
					a1, _ := cc2.RemoteAddr().(*mailbox.Addr)
					if a1 != nil {
						clientRecvSID, haveClientRecvSID = a1.SID, round >= 1 // from round 1 on the rendezvous stays
					}
					b0, _ := sc2.LocalAddr().(*mailbox.Addr)
					b1, _ := sc2.RemoteAddr().(*mailbox.Addr)
					lineUp := a1 != nil && b0 != nil && b1 != nil && a0.SID == b1.SID && a1.SID == b0.SID && a0.SID != a1.SID
					q.check(lineUp, "c17:streams-do-not-line-up-on-reconnect", func() string {
						return fmt.Sprintf("scenario %d round %d: client send=%x.. recv=%x.. server send=%x.. recv=%x..", sc, round, a0.SID[60:], a1.SID[60:], b0.SID[60:], b1.SID[60:])
					})
				}
				if plainKit {
					// no Noise layer: the mailbox connections themselves. Each connection starts with what its peer
					// writes on it, also when the previous one was closed with bytes still unread.
					msg := append([]byte(fmt.Sprintf("round-%d:", round)), rr.bytes(6+rr.intn(20))...)
					go func() { _, _ = cc2.Write(msg) }()
					part := make([]byte, 4+rr.intn(4)) // fewer bytes than were written: the rest stays unread
					rd := make(chan struct{})
					var k int
					var rerr error
					go func() { defer close(rd); k, rerr = sc2.Read(part) }()
					for i := 0; i < 100; i++ {
						select {
						case <-rd:
							i = 1000
						default:
							time.Sleep(250 * time.Millisecond)
							synctest.Wait()
						}
					}
					q.check(rerr == nil && k > 0 && bytes.Equal(part[:k], msg[:k]), "c11:fresh-connection-does-not-work", func() string {
						return fmt.Sprintf("scenario %d round %d (plain mailbox connections): the server read %q (err %v), the client wrote %q on this connection", sc, round, part[:k], rerr, msg)
					})
					q.stat("plain_rounds", 1)
					continue
				}
				if eager && round+1 < rounds {
					nextAccept = startAccept(round + 1)
					synctest.Wait()
					q.stat("eager_accepts", 1)
				}
				// Noise on top, with the shared ConnData (XX first, KK once keys are stored)
				wantKK := cdC.RemoteKey() != nil
				var nS, nC net.Conn
				var eS, eC error
				var hw sync.WaitGroup
				hw.Add(2)
				// one NoiseGrpcConn per party for the whole session, as gRPC holds its transport credentials
				go func() { defer hw.Done(); nS, _, eS = credS.ServerHandshake(sc2) }()
				go func() { defer hw.Done(); nC, _, eC = credC.ClientHandshake(ctx, "", cc2) }()
				hdone := make(chan struct{})
				go func() { hw.Wait(); close(hdone) }()
				for i := 0; i < 100; i++ {
					select {
					case <-hdone:
						i = 1000
					default:
						time.Sleep(250 * time.Millisecond)
						synctest.Wait()
					}
				}
				if eS != nil || eC != nil || nS == nil || nC == nil {
					q.fail("c11:handshake-on-fresh-connection-failed", fmt.Sprintf("scenario %d round %d (KK=%v): %v / %v", sc, round, wantKK, eS, eC))
					break
				}
				pat := cdC.HandshakePattern().Name
				if round >= 1 {
					q.check(wantKK && cdS.RemoteKey() != nil, "c11:pattern-after-pairing", func() string {
						return fmt.Sprintf("scenario %d round %d: after the first pairing the client pattern is %s, server has key: %v", sc, round, pat, cdS.RemoteKey() != nil)
					})
				}
				// a small transfer both ways: the fresh connection works
				msg := rr.bytes(1 + rr.intn(200))
				go func() { _, _ = nC.Write(msg) }()
				buf := make([]byte, 300)
				got := 0
				var rerr error
				rd := make(chan struct{})
				go func() {
					defer close(rd)
					for got < len(msg) && rerr == nil {
						var k int
						k, rerr = nS.Read(buf[got:])
						got += k
					}
				}()
				for i := 0; i < 100; i++ {
					select {
					case <-rd:
						i = 1000
					default:
						time.Sleep(250 * time.Millisecond)
						synctest.Wait()
					}
				}
				q.check(rerr == nil && bytes.Equal(buf[:got], msg), "c11:fresh-connection-does-not-work", func() string {
					return fmt.Sprintf("scenario %d round %d: %d/%d bytes, err %v", sc, round, got, len(msg), rerr)
				})
				// the owner of the PREVIOUS connection closes it once more, late (gRPC closes a transport's connection
				// from Close, from its reader and from its writer goroutine): a Close of a closed connection has no
				// effect, in particular none on the connection handed out since
				if rerr == nil && round >= 1 && rr.chance(1, 2) {
					mu.Lock()
					var prev []net.Conn
					if len(sConns) >= 2 && sConns[len(sConns)-2].conn != nil {
						prev = append(prev, sConns[len(sConns)-2].conn)
					}
					if len(cConns) >= 2 && cConns[len(cConns)-2].conn != nil {
						prev = append(prev, cConns[len(cConns)-2].conn)
					}
					mu.Unlock()
					for _, pc := range prev {
						_ = pc.Close()
					}
					synctest.Wait()
					// ... and a late Write or Read through those closed handles fails, without touching the new connection
					for hi, pc := range prev {
						pc := pc
						type res struct {
							n   int
							err error
						}
						wr := make(chan res, 1)
						go func() { n, err := pc.Write([]byte("WRITTEN-ON-A-CLOSED-CONNECTION")); wr <- res{n, err} }()
						var got res
						got.err = fmt.Errorf("still blocked")
						for i := 0; i < 40; i++ {
							select {
							case got = <-wr:
								i = 1000
							default:
								time.Sleep(250 * time.Millisecond)
								synctest.Wait()
							}
						}
						q.check(got.err != nil, "c12:write-on-a-closed-connection-succeeds", func() string {
							return fmt.Sprintf("scenario %d round %d: connection %d was closed (twice) and connection %d is in use; Write on handle %d of connection %d returned n=%d err=nil", sc, round, round-1, round, hi, round-1, got.n)
						})
					}
					q.stat("late_write_on_closed_connection", 1)
					msg2 := rr.bytes(1 + rr.intn(100))
					go func() { _, _ = nC.Write(msg2) }()
					buf2 := make([]byte, 200)
					got2 := 0
					var rerr2 error
					rdb := make(chan struct{})
					go func() {
						defer close(rdb)
						for got2 < len(msg2) && rerr2 == nil {
							var k int
							k, rerr2 = nS.Read(buf2[got2:])
							got2 += k
						}
					}()
					for i := 0; i < 100; i++ {
						select {
						case <-rdb:
							i = 1000
						default:
							time.Sleep(250 * time.Millisecond)
							synctest.Wait()
						}
					}
					q.check(rerr2 == nil && bytes.Equal(buf2[:got2], msg2), "c12:close-again-of-the-previous-connection-breaks-the-new-one", func() string {
						return fmt.Sprintf("scenario %d round %d: connection %d had been closed and connection %d handed out and working; after Close was called once more on the handles of connection %d, a transfer on connection %d: %d/%d bytes, err %v", sc, round, round-1, round, round-1, round, got2, len(msg2), rerr2)
					})
					{
						var hs []string
						for i := 0; i < round; i++ {
							hs = append(hs, "H", fmt.Sprintf("C%d", i))
						}
						res := "ok"
						if !(rerr2 == nil && bytes.Equal(buf2[:got2], msg2)) {
							res = "fail"
						}
						evMu.Lock()
						lines = append(lines, fmt.Sprintf("CLOSES %s H C%d T%d=%s", strings.Join(hs, " "), round-1, round, res))
						evMu.Unlock()
					}
					q.stat("late_second_close_of_previous_connection", 1)
					if rerr2 != nil {
						break
					}
				}
				// sometimes the connection ends with part of a large record still unread on the server side
				if rerr == nil && rr.chance(1, 2) {
					big := rr.bytes(40000)
					go func() { _, _ = nC.Write(big) }()
					small := make([]byte, 10)
					rd2 := make(chan struct{})
					var k2 int
					var e2 error
					go func() { defer close(rd2); k2, e2 = nS.Read(small) }()
					for i := 0; i < 100; i++ {
						select {
						case <-rd2:
							i = 1000
						default:
							time.Sleep(250 * time.Millisecond)
							synctest.Wait()
						}
					}
					q.check(e2 == nil && bytes.Equal(small[:k2], big[:k2]), "c11:fresh-connection-does-not-work", func() string {
						return fmt.Sprintf("scenario %d round %d: first bytes of a large record: %d bytes, err %v", sc, round, k2, e2)
					})
					q.stat("rounds_ending_with_unread_data", 1)
				}
				// stream ids at the relay: before the pairing the pass-phrase ids, afterwards new ones
				ids := relay.streamIDs()
				if round == 0 {
					for _, i := range ids {
						sidsBefore[i] = true
					}
					q.check(len(ids) == 2, "c11:stream-ids", func() string { return fmt.Sprintf("round 0: %d ids", len(ids)) })
				} else if round == 1 {
					fresh := 0
					for _, i := range ids {
						if !sidsBefore[i] {
							fresh++
						}
					}
					q.check(fresh == 2, "c11:no-switch-to-key-derived-rendezvous", func() string {
						return fmt.Sprintf("scenario %d: after pairing the relay saw %d new stream ids (expected the 2 key-derived ones)", sc, fresh)
					})
				}
				mu.Lock()
				sConns[len(sConns)-1].conn = nS
				cConns[len(cConns)-1].conn = nC
				mu.Unlock()
			}
			// a stranger who only knows the pass phrase cannot get in any more
			if rounds >= 2 && len(relay.streamIDs()) >= 4 {
				cdX := mailbox.NewConnData(keyECDH(privFromRng(rr)), nil, entropy, nil, nil, nil)
				sx, _ := cdX.SID()
				sp, _ := cdS.SID()
				q.check(sx != sp, "c11:stranger-derives-current-rendezvous", func() string { return "pass-phrase SID equals the paired SID" })
				before := len(relay.seen)
				xctx, xcancel := context.WithCancel(ctx)
				xdone := make(chan error, 1)
				go func() {
					xcli, err := mailbox.VerifNewClient(xctx, "relay", cdX, relay)
					if err != nil {
						xdone <- err
						return
					}
					_, err = xcli.Dial(xctx, "")
					xdone <- err
				}()
				admitted := false
				for i := 0; i < 60; i++ {
					select {
					case err := <-xdone:
						admitted = err == nil
						i = 1000
					default:
						time.Sleep(500 * time.Millisecond)
						synctest.Wait()
					}
				}
				q.check(!admitted, "c11:stranger-admitted", func() string {
					return fmt.Sprintf("scenario %d: a client holding only the pass phrase obtained a connection after the pairing (%d relay messages)", sc, len(relay.seen)-before)
				})
				xcancel()
			}
			mu.Lock()
			for _, h := range sConns {
				_ = h.conn.Close()
			}
			for _, h := range cConns {
				_ = h.conn.Close()
			}
			mu.Unlock()
			_ = srv.Close()
			cancel()
			synctest.Wait()
			time.Sleep(12 * time.Second)
			synctest.Wait()
			_ = base
		})
		if pan != "" {
			q.fail("c11:bubble-panic", fmt.Sprintf("scenario %d: %s", sc, truncate(pan, 400)))
		}
		o.line("BEGIN n%d rounds=%d", sc, rounds)
		for _, ln := range lines {
			o.line("%s", ln)
		}
		o.line("END n%d", sc)
		q.stat("scenarios", 1)
		q.stat("rounds", rounds)
		q.stat("distinct_nontrivial", 1)
		if sc < 2 {
			q.sample(fmt.Sprintf("scenario %d: %v", sc, firstN(lines, 16)))
		}
	}
	// the first pairing is interrupted at its last message: the relay loses the client's third handshake message
	// (every copy of the gbn DATA packet that carries it) - a relay failure during the very first connection. The
	// client's handshake has returned success, the server's fails. Both close; the relay works again; Accept and
	// Dial must hand out a fresh working connection (both still at the pass-phrase rendezvous, or both at the new one)
	for k := 0; k < 2; k++ {
		rr := r.sub(7000 + k)
		var key, detail string
		pan := bubble(t, func(t *testing.T) {
			relay := newFakeRelay()
			ctx, cancel := context.WithCancel(context.Background())
			defer cancel()
			entropy := rr.bytes(14)
			cdC := mailbox.NewConnData(keyECDH(privFromRng(rr)), nil, entropy, nil, nil, nil)
			cdS := mailbox.NewConnData(keyECDH(privFromRng(rr)), nil, entropy, []byte("macaroon"), nil, nil)
			srv, err1 := mailbox.VerifNewServer("relay", cdS, relay, func(mailbox.ServerStatus) {})
			cli, err2 := mailbox.VerifNewClient(ctx, "relay", cdC, relay)
			if err1 != nil || err2 != nil {
				key, detail = "c11:setup", fmt.Sprintf("%v %v", err1, err2)
				return
			}
			sidS, _ := cdS.SID()
			c2s := string(func() []byte { x := mailbox.GetSID(sidS, false); return x[:] }())
			relay.mu.Lock()
			relay.faultMsg = func(stream string, msg []byte) string {
				// client -> server, gbn DATA (type 2), not a ping, sequence number 1: act 3 (act 1 is sequence 0)
				if stream == c2s && len(msg) >= 4 && msg[0] == 2 && msg[3] == 0 && msg[1] == 1 {
					return "drop"
				}
				return "deliver"
			}
			relay.mu.Unlock()
			wait := func(done chan struct{}, steps int) bool {
				for i := 0; i < steps; i++ {
					select {
					case <-done:
						return true
					default:
						time.Sleep(250 * time.Millisecond)
						synctest.Wait()
					}
				}
				return false
			}
			connect := func() (sc, cc net.Conn) {
				var wg sync.WaitGroup
				wg.Add(2)
				go func() { defer wg.Done(); sc, _ = srv.Accept() }()
				go func() { defer wg.Done(); time.Sleep(100 * time.Millisecond); cc, _ = cli.Dial(ctx, "") }()
				done := make(chan struct{})
				go func() { wg.Wait(); close(done) }()
				if !wait(done, 400) {
					return nil, nil
				}
				return sc, cc
			}
			credS, credC := mailbox.NewNoiseGrpcConn(cdS), mailbox.NewNoiseGrpcConn(cdC)
			shake := func(sc, cc net.Conn) (nS, nC net.Conn, eS, eC error) {
				var wg sync.WaitGroup
				wg.Add(2)
				go func() { defer wg.Done(); nS, _, eS = credS.ServerHandshake(sc) }()
				go func() { defer wg.Done(); nC, _, eC = credC.ClientHandshake(ctx, "", cc) }()
				done := make(chan struct{})
				go func() { wg.Wait(); close(done) }()
				if !wait(done, 200) {
					return nil, nil, fmt.Errorf("still running after 50 s"), fmt.Errorf("still running after 50 s")
				}
				return
			}
			sc, cc := connect()
			if sc == nil || cc == nil {
				key, detail = "c11:setup", "first connection did not come about"
				return
			}
			_, _, eS, eC := shake(sc, cc)
			q.stat("pairing_interrupted_at_act3", 1)
			if eS == nil || eC != nil {
				// not the situation this scenario is about (the message got through, or the client noticed)
				q.stat("pairing_interrupted_at_act3_other_outcome", 1)
				_ = sc.Close()
				_ = cc.Close()
				_ = srv.Close()
				return
			}
			clientHasKey, serverHasKey := cdC.RemoteKey() != nil, cdS.RemoteKey() != nil
			_ = cc.Close()
			_ = sc.Close()
			synctest.Wait()
			relay.mu.Lock()
			relay.faultMsg = nil
			relay.mu.Unlock()
			sc2, cc2 := connect()
			var e2S, e2C error = fmt.Errorf("no connection"), fmt.Errorf("no connection")
			if sc2 != nil && cc2 != nil {
				_, _, e2S, e2C = shake(sc2, cc2)
			}
			if sc2 == nil || cc2 == nil || e2S != nil || e2C != nil {
				sC, _ := cdC.SID()
				sS, _ := cdS.SID()
				key = fmt.Sprintf("c11:no-fresh-connection:after-first-pairing-lost-its-last-message:client-has-server-key=%v,server-has-client-key=%v", clientHasKey, serverHasKey)
				detail = fmt.Sprintf("first pairing: the relay lost the client's third handshake message; client handshake: ok, server handshake: %v; both closed, relay working again; second attempt within 100 s: Accept returned %v, Dial returned %v, handshakes %v / %v; the client now waits at %x.. with pattern %s, the server at %x.. with pattern %s",
					eS, sc2 != nil, cc2 != nil, e2S, e2C, sC[:4], cdC.HandshakePattern().Name, sS[:4], cdS.HandshakePattern().Name)
			}
			for _, c := range []net.Conn{sc2, cc2} {
				if c != nil {
					_ = c.Close()
				}
			}
			_ = srv.Close()
			cancel()
			synctest.Wait()
			time.Sleep(12 * time.Second)
			synctest.Wait()
		})
		if pan != "" {
			q.fail("c11:bubble-panic", fmt.Sprintf("pairing interrupted at act 3: %s", truncate(pan, 400)))
		}
		q.check(key == "", key, func() string { return detail })
		q.stat("distinct_nontrivial", 1)
	}
	// real-time session scenarios (relay incidents; see c11_rt_test.go)
	rtSessionCases(q, r)
}
